"""C07 source translation of myst_parser/parsers/options.py -> coq/Gen/OptSrc.v: class StreamBuffer (SbFn),
TokenizeError.clone (translate_clone), the scanner functions (Fn), the generator _tokenize (TokFn, writer monad `wres`
of coq/Opt/OptModel.v), _to_tokens and options_to_items (PairFn, writer `gw` of coq/Opt/OptSrcLib.v); every function
is emitted twice: `<fn>_src` over the stream primitives of OptModel.v and `<fn>_full` over the translated StreamBuffer.

A fail-closed walker for the idioms of options.py (own walker, in the spirit of gen/py2coq.py): every scanner function is
translated statement by statement into the `res` monad of coq/Base/Res.v over the hand-modelled StreamBuffer primitives
(`peek`, `prefix`, `forward`, `s_col`, `s_idx` of coq/Opt/OptModel.v):

  stream.peek(k) / prefix(n) / forward(n) / .column / .index / get_position()   -> the primitives (peek is monadic)
  `while cond: body`      -> a Fixpoint on fuel (one per loop, `<fn>_src_w<i>`), fuel = fuel_of stream at loop entry;
                             break / continue / return inside the loop are kept (`ctl`: Next state | Done result)
  `for k in range(n):`    -> a Fixpoint on the number of rounds left
  x in CONST / "lit" / (a, b)   -> mem_N x [code points]   (the literal is inlined, so a changed table changes the term)
  x in DICT, DICT[x]      -> assoc in the regenerated ESCAPE_REPLACEMENTS / ESCAPE_CODES (KeyError when absent)
  a and b / a or b        -> && / || when both sides are pure, else a monadic short circuit (Python's laziness)
  raise TokenizeError(msg, stream.get_position(), ...)  -> Raise (TokenizeError (s_idx stream))   (message, context dropped)
  chunks.append(e) / chunks.extend(e) / "".join(chunks) -> ++ [e] / ++ e / concat
  int(ch) / int(s, 16) / chr(n) / max(a, b)             -> digit_val / int16 / py_chr / N.max of OptModel.v
  KeyToken(..., v[, style]) / ValueToken(...)            -> v   (marks and style dropped)
  return e / return a, b  -> Ok (stream, e) / Ok (stream, a, b): the stream object is threaded explicitly

Erased (checked to be used nowhere else): variables holding marks (`start_mark`, `end_mark`, results of
get_position()), the `state` parameter and `state.has_comments = True`.
Anything else raises Untranslatable (tie broken).  The hand-written model stays the subject of the theorems; coq/Opt/OptSrcProofs.v
proves `<fn>_src = <fn>` for every translated function (coq/Opt/OptSrcCompose.v: the composite scanners, the _tokenize loop,
options_to_items_src = options_to_items).
"""
from __future__ import annotations

import ast
import hashlib

SRC = "myst_parser/parsers/options.py"


class Untranslatable(Exception):
    pass


def bad(node, why):
    raise Untranslatable(f"line {getattr(node, 'lineno', '?')}: {why}: {ast.unparse(node)[:100] if isinstance(node, ast.AST) else node}")


# ---------------------------------------------------------------- configuration (fail-closed)

# module constants / dicts the code may mention
STR_CONSTS = ["_CHARS_END", "_CHARS_NEWLINE", "_CHARS_END_NEWLINE", "_CHARS_SPACE_NEWLINE",
              "_CHARS_END_SPACE_NEWLINE", "_CHARS_END_SPACE_TAB_NEWLINE"]
DICTS = {"_ESCAPE_REPLACEMENTS": ("ESCAPE_REPLACEMENTS", "str"), "_ESCAPE_CODES": ("ESCAPE_CODES", "N")}

# types: char str strs nat N bool obool oN stream mark unit
# function -> (coq name, params [(py name, type)], return types (without the stream), callees allowed)
FUNCS = {
    "_scan_line_break": ("scan_line_break_src", [("stream", "stream")], ["str"]),
    "_scan_to_next_token": ("scan_to_next_token_src", [("stream", "stream"), ("state", "erased")], []),
    "_scan_plain_spaces": ("scan_plain_spaces_src", [("stream", "stream"), ("allow_newline", "bool")], ["strs"]),
    "_scan_flow_scalar_breaks": ("scan_flow_scalar_breaks_src", [("stream", "stream")], ["strs"]),
    "_scan_flow_scalar_spaces": ("scan_flow_scalar_spaces_src", [("stream", "stream"), ("start_mark", "erased")], ["strs"]),
    "_scan_flow_scalar_non_spaces": ("scan_flow_scalar_non_spaces_src",
                                     [("stream", "stream"), ("double", "bool"), ("start_mark", "erased")], ["strs"]),
    "_scan_block_scalar_indicators": ("scan_block_scalar_indicators_src", [("stream", "stream"), ("start_mark", "erased")],
                                      ["obool", "oN"]),
    "_scan_block_scalar_ignored_line": ("scan_block_scalar_ignored_line_src",
                                        [("stream", "stream"), ("start_mark", "erased"), ("state", "erased")], []),
    "_scan_block_scalar_indentation": ("scan_block_scalar_indentation_src", [("stream", "stream")], ["strs", "N", "erased"]),
    "_scan_block_scalar_breaks": ("scan_block_scalar_breaks_src", [("stream", "stream"), ("indent", "N")], ["strs", "erased"]),
    "_scan_plain_scalar": ("scan_plain_scalar_src", [("stream", "stream"), ("state", "erased"), ("is_key", "bool")], ["str"]),
    "_scan_flow_scalar": ("scan_flow_scalar_src", [("stream", "stream"), ("style", "char"), ("is_key", "bool")], ["str"]),
    "_scan_block_scalar": ("scan_block_scalar_src", [("stream", "stream"), ("style", "char"), ("state", "erased")], ["str"]),
}
ORDER = ["_scan_line_break", "_scan_to_next_token", "_scan_plain_spaces", "_scan_flow_scalar_breaks",
         "_scan_flow_scalar_spaces", "_scan_flow_scalar_non_spaces", "_scan_block_scalar_indicators",
         "_scan_block_scalar_ignored_line", "_scan_block_scalar_indentation", "_scan_block_scalar_breaks",
         "_scan_plain_scalar", "_scan_flow_scalar", "_scan_block_scalar"]

# default types of locals initialised with an ambiguous literal (0, [], "", None)
LOCAL_TYPES = {"length": "nat", "k": "nat", "chunks": "strs", "breaks": "strs", "spaces": "strs",
               "indent": "N", "min_indent": "N", "max_indent": "N", "increment": "oN", "chomping": "obool",
               "line_break": "str", "whitespaces": "str", "found": "bool", "code": "N",
               "start_mark": "erased", "end_mark": "erased", "folded": "bool", "double": "bool",
               "leading_non_space": "bool", "quote": "char", "ch": "char"}

COQ_TYPE = {"char": "N", "str": "str", "strs": "list str", "nat": "nat", "N": "N", "bool": "bool",
            "obool": "option bool", "oN": "option N", "stream": "OptModel.stream", "unit": "unit"}


def nlist(s):
    return "[" + "; ".join(str(ord(c)) for c in s) + "]" if s else "[]"


# ---------------------------------------------------------------- the walker

class Fn:
    def __init__(self, mod, pyname):
        self.mod = mod
        self.pyname = pyname
        self.coqname, self.params, self.rets = FUNCS[pyname]
        self.node = mod.funcs[pyname]
        self.env = {}          # python local -> type
        self.tmp = 0
        self.loops = []        # emitted loop Fixpoints (text)
        self.nloop = 0
        args = [a.arg for a in self.node.args.args]
        if args != [p for p, _ in self.params]:
            bad(self.node, f"signature of {pyname} is {args}")
        for p, t in self.params:
            self.env[p] = t

    def fresh(self, base="t"):
        self.tmp += 1
        return f"__{base}{self.tmp}"

    # ---------- expressions: returns (pre lines, term, type)
    def const_chars(self, e):
        """string value of a literal / module constant / tuple of characters / + of those, else None"""
        if isinstance(e, ast.Constant) and isinstance(e.value, str):
            return e.value
        if isinstance(e, ast.Name) and e.id in self.mod.consts:
            return self.mod.consts[e.id]
        if isinstance(e, ast.Tuple) and all(isinstance(x, ast.Constant) and isinstance(x.value, str) and len(x.value) == 1 for x in e.elts):
            return "".join(x.value for x in e.elts)
        if isinstance(e, ast.BinOp) and isinstance(e.op, ast.Add):
            a, b = self.const_chars(e.left), self.const_chars(e.right)
            if a is not None and b is not None:
                return a + b
        return None

    def is_stream(self, e):
        return isinstance(e, ast.Name) and e.id == "stream"

    def nat_expr(self, e):
        """an index / count expression of type nat"""
        if isinstance(e, ast.Constant) and type(e.value) is int and e.value >= 0:
            return [], f"{e.value}%nat"
        pre, t, ty = self.expr(e)
        if ty == "nat":
            return pre, t
        if ty == "N":
            return pre, f"(N.to_nat {t})"
        bad(e, f"expected a count, got {ty}")

    def expr(self, e, want=None):
        if isinstance(e, ast.Constant):
            v = e.value
            if v is True or v is False:
                return [], "true" if v else "false", "bool"
            if v is None:
                if want in ("obool", "oN"):
                    return [], "None", want
                bad(e, "None without an option type")
            if isinstance(v, str):
                if want == "char" and len(v) == 1:
                    return [], str(ord(v)), "char"
                return [], nlist(v), "str"
            if type(v) is int and v >= 0:
                if want == "nat":
                    return [], f"{v}%nat", "nat"
                if want == "oN":
                    return [], f"(Some {v})", "oN"
                return [], str(v), "N"
            bad(e, "constant")
        if isinstance(e, ast.Name):
            if e.id in self.env:
                ty = self.env[e.id]
                if ty == "erased":
                    bad(e, "use of an erased variable (mark / state)")
                return [], e.id, ty
            if e.id in self.mod.consts:
                return [], nlist(self.mod.consts[e.id]), "str"
            bad(e, "unknown name")
        if isinstance(e, ast.List) and not e.elts:
            return [], "[]", want or "strs"
        if isinstance(e, ast.Attribute) and self.is_stream(e.value):
            if e.attr == "column":
                return [], "(s_col stream)", "N"
            if e.attr == "index":
                return [], "(s_idx stream)", "N"
            bad(e, "stream attribute")
        if isinstance(e, ast.Subscript) and isinstance(e.value, ast.Name) and e.value.id in DICTS:
            coq, vty = DICTS[e.value.id]
            pre, k, kty = self.expr(e.slice)
            if kty != "char":
                bad(e, "dict key is not a character")
            t = self.fresh()
            pre = pre + [f"do {t} <- match assoc {k} {coq} with Some __v => Ok __v | None => Raise KeyError end;"]
            return pre, t, vty
        if isinstance(e, ast.UnaryOp) and isinstance(e.op, ast.Not):
            pre, t = self.test(e.operand)
            return pre, f"(negb {t})", "bool"
        if isinstance(e, ast.BoolOp):
            pre, t = self.test(e)
            return pre, t, "bool"
        if isinstance(e, ast.Compare):
            pre, t = self.test(e)
            return pre, t, "bool"
        if isinstance(e, ast.BinOp) and isinstance(e.op, (ast.Add, ast.Sub)):
            p1, a, ta = self.expr(e.left)
            p2, b, tb = self.expr(e.right, want=ta if ta in ("nat", "N") else None)
            if ta == "nat" and tb in ("nat",):
                op = "+" if isinstance(e.op, ast.Add) else "-"
                if op == "+" and isinstance(e.right, ast.Constant) and e.right.value == 1:
                    return p1 + p2, f"(S {a})", "nat"      # same term as `x += 1`
                return p1 + p2, f"({a} {op} {b})%nat", "nat"
            if ta == "N" and tb == "N":
                op = "+" if isinstance(e.op, ast.Add) else "-"
                return p1 + p2, f"({a} {op} {b})", "N"
            bad(e, f"arithmetic on {ta}, {tb}")
        if isinstance(e, ast.IfExp):
            pc, c = self.test(e.test)
            p1, a, ta = self.expr(e.body, want)
            p2, b, tb = self.expr(e.orelse, want or ta)
            if p1 or p2:
                bad(e, "conditional expression with effects")
            if ta != tb:
                bad(e, f"conditional expression of types {ta} / {tb}")
            if a == b:
                return pc, a, ta
            return pc, f"(if {c} then {a} else {b})", ta
        if isinstance(e, ast.Call):
            return self.call(e, want)
        bad(e, "expression")

    def call(self, e, want):
        f = e.func
        if e.keywords and not (isinstance(f, ast.Name) and f.id in FUNCS):
            bad(e, "keyword arguments")
        # stream methods
        if isinstance(f, ast.Attribute) and self.is_stream(f.value):
            if f.attr == "peek" and len(e.args) <= 1:
                pre, k = self.nat_expr(e.args[0]) if e.args else ([], "0%nat")
                t = self.fresh("c")
                return pre + [f"do {t} <- peek stream {k};"], t, "char"
            if f.attr == "prefix" and len(e.args) <= 1:
                pre, k = self.nat_expr(e.args[0]) if e.args else ([], "1%nat")
                return pre, f"(prefix stream {k})", "str"
            if f.attr == "get_position" and not e.args:
                return [], "(s_idx stream)", "mark"
            bad(e, "stream method in an expression")
        if isinstance(f, ast.Attribute) and f.attr == "join" and isinstance(f.value, ast.Constant) and f.value.value == "" and len(e.args) == 1:
            pre, t, ty = self.expr(e.args[0])
            if ty != "strs":
                bad(e, "join of a non-list")
            return pre, f"(concat {t})", "str"
        if isinstance(f, ast.Name):
            if f.id == "int" and len(e.args) == 1:
                pre, t, ty = self.expr(e.args[0])
                if ty != "char":
                    bad(e, "int() of a non-character")
                v = self.fresh("n")
                return pre + [f"do {v} <- digit_val {t};"], v, "N"
            if f.id == "int" and len(e.args) == 2 and isinstance(e.args[1], ast.Constant) and e.args[1].value == 16:
                pre, t, ty = self.expr(e.args[0])
                if ty != "str":
                    bad(e, "int(_, 16) of a non-string")
                v = self.fresh("n")
                return pre + [f"do {v} <- int16 {t};"], v, "N"
            if f.id == "chr" and len(e.args) == 1:
                pre, t, ty = self.expr(e.args[0])
                if ty != "N":
                    bad(e, "chr() of a non-int")
                v = self.fresh("c")
                return pre + [f"do {v} <- py_chr {t};"], v, "char"
            if f.id == "max" and len(e.args) == 2:
                p1, a, ta = self.expr(e.args[0])
                p2, b, tb = self.expr(e.args[1])
                if (ta, tb) != ("N", "N"):
                    bad(e, "max of non-ints")
                return p1 + p2, f"(N.max {a} {b})", "N"
            if f.id in ("KeyToken", "ValueToken") and len(e.args) in (3, 4):
                return self.expr(e.args[2])             # the token's value; marks and style dropped
            if f.id == "cast" and len(e.args) == 2:
                return self.expr(e.args[1], want)
            if f.id in FUNCS:
                return self.scanner_call(e)
        bad(e, "call")

    def scanner_call(self, e):
        """f(stream, args...) : binds the new stream and the results"""
        coq, params, rets = FUNCS[e.func.id]
        if e.func.id not in self.mod.done:
            bad(e, f"call of {e.func.id} before its translation")
        given = list(e.args)
        kw = {k.arg: k.value for k in e.keywords}
        pre, args = [], []
        for i, (p, ty) in enumerate(params):
            a = given[i] if i < len(given) else kw.get(p)
            if a is None:
                d = self.mod.defaults[e.func.id].get(p)
                if d is None:
                    bad(e, f"missing argument {p}")
                a = d
            if ty == "stream":
                if not self.is_stream(a):
                    bad(e, "first argument is not the stream")
                args.append("stream")
            elif ty == "erased":
                continue
            else:
                pp, t, tt = self.expr(a, want=ty)
                if tt != ty:
                    bad(e, f"argument {p} has type {tt}, expected {ty}")
                pre += pp
                args.append(t)
        r = self.fresh("r")
        kept = [ty for ty in rets if ty != "erased"]
        names = [self.fresh("v") for _ in kept]
        pat = "stream" if not kept else "'(" + ", ".join(["stream"] + names) + ")"
        pre.append(f"do {r} <- {coq} {' '.join(args)};")
        pre.append(f"let {pat} := {r} in")
        # value: the kept results (erased ones dropped), as a tuple marker
        full, it = [], iter(names)
        for ty in rets:
            full.append(None if ty == "erased" else next(it))
        self.last_call_results = (full, rets)
        if len(kept) == 1 and len(rets) == 1:
            return pre, names[0], kept[0]
        return pre, ("TUPLE", full, rets), "tuple"

    # ---------- tests (bool)
    def effectful(self, pre):
        return bool(pre)

    def test(self, t):
        if isinstance(t, ast.UnaryOp) and isinstance(t.op, ast.Not):
            pre, x = self.test(t.operand)
            return pre, f"(negb {x})"
        if isinstance(t, ast.BoolOp):
            isand = isinstance(t.op, ast.And)
            pre, acc = self.test(t.values[0])
            for v in t.values[1:]:
                p2, b = self.test(v)
                if not p2:
                    acc = f"({acc} && {b})" if isand else f"({acc} || {b})"
                else:
                    if any("let '(stream" in l or "forward" in l for l in p2):
                        bad(t, "short-circuit operand changes the stream")
                    r = self.fresh("b")
                    inner = "\n".join(p2) + f"\nOk {b}"
                    if isand:
                        pre.append(f"do {r} <- (if {acc} then ({inner}) else Ok false);")
                    else:
                        pre.append(f"do {r} <- (if {acc} then Ok true else ({inner}));")
                    acc = r
            return pre, acc
        if isinstance(t, ast.Compare) and len(t.ops) == 1:
            op, l, r = t.ops[0], t.left, t.comparators[0]
            if isinstance(op, (ast.In, ast.NotIn)):
                neg = isinstance(op, ast.NotIn)
                pre, x, tx = self.expr(l)
                if tx != "char":
                    bad(t, "membership of a non-character")
                if isinstance(r, ast.Name) and r.id in DICTS:
                    term = f"(match assoc {x} {DICTS[r.id][0]} with Some _ => true | None => false end)"
                else:
                    cs = self.const_chars(r)
                    if cs is None:
                        bad(t, "membership right operand")
                    term = f"(mem_N {x} {nlist(cs)})"
                return pre, f"(negb {term})" if neg else term
            if isinstance(op, (ast.Is, ast.IsNot)):
                neg = isinstance(op, ast.IsNot)
                pre, x, tx = self.expr(l)
                if isinstance(r, ast.Constant) and r.value is None and tx in ("obool", "oN"):
                    term = f"(match {x} with None => true | Some _ => false end)"
                elif isinstance(r, ast.Constant) and r.value in (True, False) and tx == "obool":
                    term = f"(match {x} with Some {'true' if r.value else 'false'} => true | _ => false end)"
                else:
                    bad(t, "is / is not")
                return pre, f"(negb {term})" if neg else term
            if isinstance(op, (ast.Eq, ast.NotEq)):
                neg = isinstance(op, ast.NotEq)
                p1, a, ta = self.expr(l)
                if isinstance(r, ast.Name) and r.id in self.mod.consts and ta == "char":
                    # ch == _CHARS_END : comparison of a one-character string with the constant
                    term = f"(str_eqb [{a}] {nlist(self.mod.consts[r.id])})"
                    return p1, f"(negb {term})" if neg else term
                p2, b, tb = self.expr(r, want=ta if ta in ("char", "nat", "N", "oN") else None)
                if ta == "char" and tb == "char":
                    term = f"({a} =? {b})"
                elif ta == "char" and tb == "str":
                    term = f"(str_eqb [{a}] {b})"
                elif ta == "str" and tb == "str":
                    term = f"(str_eqb {a} {b})"
                elif ta == "N" and tb == "N":
                    term = f"({a} =? {b})"
                elif ta == "nat" and tb == "nat":
                    term = f"(Nat.eqb {a} {b})"
                elif ta == "oN" and tb == "oN":
                    term = f"(match {a}, {b} with Some __x, Some __y => __x =? __y | _, _ => false end)"
                else:
                    bad(t, f"== on {ta} / {tb}")
                return p1 + p2, f"(negb {term})" if neg else term
            if isinstance(op, (ast.Lt, ast.Gt, ast.LtE, ast.GtE)):
                p1, a, ta = self.expr(l)
                p2, b, tb = self.expr(r, want=ta)
                if (ta, tb) != ("N", "N"):
                    bad(t, f"ordering on {ta} / {tb}")
                term = {ast.Lt: f"({a} <? {b})", ast.Gt: f"({b} <? {a})", ast.LtE: f"({a} <=? {b})", ast.GtE: f"({b} <=? {a})"}[type(op)]
                return p1 + p2, term
            bad(t, "comparison")
        # truthiness
        pre, x, tx = self.expr(t)
        if tx == "bool":
            return pre, x
        if tx == "str":
            return pre, f"(nonempty {x})"
        if tx == "strs":
            return pre, f"(negb (is_nil {x}))"
        if tx == "nat":
            return pre, f"(negb (Nat.eqb {x} 0))"
        bad(t, f"truth value of {tx}")

    # ---------- statements
    def assigned(self, body):
        """python names assigned in a statement list (not descending into nothing special), plus 'stream' if mutated"""
        out = []

        def add(n):
            if n not in out:
                out.append(n)
        for node in ast.walk(ast.Module(body=list(body), type_ignores=[])):
            if isinstance(node, ast.Assign):
                for tg in node.targets:
                    for nm in ([tg] if isinstance(tg, ast.Name) else tg.elts if isinstance(tg, ast.Tuple) else []):
                        if isinstance(nm, ast.Name):
                            add(nm.id)
            elif isinstance(node, ast.AugAssign) and isinstance(node.target, ast.Name):
                add(node.target.id)
            elif isinstance(node, ast.Call):
                f = node.func
                if isinstance(f, ast.Attribute) and self.is_stream(f.value) and f.attr == "forward":
                    add("stream")
                if isinstance(f, ast.Name) and f.id in FUNCS:
                    add("stream")
                if isinstance(f, ast.Attribute) and f.attr in ("append", "extend") and isinstance(f.value, ast.Name):
                    add(f.value.id)
        return out

    def has_ctl(self, body, loop_level=True):
        """does the statement list contain return / break / continue (break/continue only of the current loop)"""
        for s in body:
            if isinstance(s, (ast.Return,)):
                return True
            if isinstance(s, (ast.Break, ast.Continue)):
                return True
            if isinstance(s, ast.If) and (self.has_ctl(s.body) or self.has_ctl(s.orelse)):
                return True
            if isinstance(s, (ast.While, ast.For)) and self.has_return(s.body):
                return True
        return False

    def has_return(self, body):
        return any(isinstance(n, ast.Return) for s in body for n in ast.walk(s))

    def state_tuple(self, names):
        live = [n for n in names if self.env.get(n) != "erased"]
        if not live:
            return "tt", "tt"
        if len(live) == 1:
            return live[0], live[0]
        return "(" + ", ".join(live) + ")", "'(" + ", ".join(live) + ")"

    def coerce(self, term, ty, want, node):
        if ty == want:
            return term
        if ty == "char" and want == "str":
            return f"[{term}]"
        if ty == "bool" and want == "obool":
            return f"(Some {term})"
        if ty == "N" and want == "oN":
            return f"(Some {term})"
        if ty == "N" and want == "nat":
            return f"(N.to_nat {term})"
        bad(node, f"type {ty} where {want} is expected")

    def bind_name(self, name, ty, node):
        old = self.env.get(name)
        if old is None:
            self.env[name] = ty
        elif old != ty:
            bad(node, f"variable {name} changes type {old} -> {ty}")

    def stmts(self, body, k, ctx):
        """ctx: dict(loop=None | (loopname, args pattern...), ret=function)"""
        if not body:
            return k()
        s, rest = body[0], list(body[1:])
        nxt = lambda: self.stmts(rest, k, ctx)
        if isinstance(s, ast.Expr) and isinstance(s.value, ast.Constant):
            return nxt()
        if isinstance(s, ast.AnnAssign) and isinstance(s.target, ast.Name):
            if s.value is None:
                return nxt()
            s = ast.Assign(targets=[s.target], value=s.value, lineno=s.lineno)
        if isinstance(s, ast.Assign) and len(s.targets) == 1:
            tg = s.targets[0]
            # erased: marks and state
            if isinstance(tg, ast.Attribute) and isinstance(tg.value, ast.Name) and tg.value.id == "state" and tg.attr == "has_comments":
                if not (isinstance(s.value, ast.Constant) and s.value.value is True):
                    bad(s, "state.has_comments assignment")
                return nxt()
            if isinstance(tg, ast.Name):
                want = self.env.get(tg.id) or LOCAL_TYPES.get(tg.id)
                if want == "erased":
                    if not (isinstance(s.value, ast.Call) and ast.unparse(s.value) == "stream.get_position()") and not (
                            isinstance(s.value, ast.Name) and self.env.get(s.value.id, LOCAL_TYPES.get(s.value.id)) == "erased"):
                        bad(s, "mark variable assigned from something else than get_position()")
                    self.env[tg.id] = "erased"
                    return nxt()
                pre, t, ty = self.expr(s.value, want=want)
                if ty == "tuple":
                    bad(s, "tuple assigned to one name")
                if ty == "mark":
                    bad(s, f"mark stored in {tg.id}, which is not declared as erased")
                if want is not None:
                    t = self.coerce(t, ty, want, s)
                    ty = want
                self.bind_name(tg.id, ty, s)
                return "\n".join(pre + [f"let {tg.id} := {t} in", nxt()])
            if isinstance(tg, ast.Tuple) and all(isinstance(x, ast.Name) for x in tg.elts):
                pre, t, ty = self.expr(s.value)
                if ty != "tuple":
                    bad(s, "tuple unpacking of a non-call")
                _, full, rets = t
                if len(full) != len(tg.elts):
                    bad(s, "tuple arity")
                lines = list(pre)
                for nm, v, rty in zip(tg.elts, full, rets):
                    if rty == "erased":
                        if self.env.get(nm.id, LOCAL_TYPES.get(nm.id)) != "erased":
                            bad(s, f"{nm.id} receives a mark but is not erased")
                        self.env[nm.id] = "erased"
                        continue
                    self.bind_name(nm.id, rty, s)
                    lines.append(f"let {nm.id} := {v} in")
                return "\n".join(lines + [nxt()])
            bad(s, "assignment target")
        if isinstance(s, ast.AugAssign) and isinstance(s.target, ast.Name) and isinstance(s.op, ast.Add):
            n = s.target.id
            ty = self.env.get(n)
            if ty == "nat" and isinstance(s.value, ast.Constant) and s.value.value == 1:
                return f"let {n} := S {n} in\n" + nxt()
            bad(s, "augmented assignment")
        if isinstance(s, ast.Expr) and isinstance(s.value, ast.Call):
            c = s.value
            f = c.func
            if isinstance(f, ast.Attribute) and self.is_stream(f.value) and f.attr == "forward" and len(c.args) <= 1 and not c.keywords:
                pre, kk = self.nat_expr(c.args[0]) if c.args else ([], "1%nat")
                return "\n".join(pre + [f"do stream <- forward stream {kk};", nxt()])
            if isinstance(f, ast.Attribute) and f.attr in ("append", "extend") and isinstance(f.value, ast.Name) and len(c.args) == 1:
                lst = f.value.id
                if self.env.get(lst) != "strs":
                    bad(s, "append/extend on a non-list")
                pre, t, ty = self.expr(c.args[0])
                if f.attr == "append":
                    t = self.coerce(t, ty, "str", s)
                    return "\n".join(pre + [f"let {lst} := {lst} ++ [{t}] in", nxt()])
                if ty != "strs":
                    bad(s, "extend with a non-list")
                return "\n".join(pre + [f"let {lst} := {lst} ++ {t} in", nxt()])
            if isinstance(f, ast.Name) and f.id in FUNCS:
                pre, _t, _ty = self.scanner_call(c)
                return "\n".join(pre + [nxt()])
            bad(s, "expression statement")
        if isinstance(s, ast.Raise) and isinstance(s.exc, ast.Call) and ast.unparse(s.exc.func) == "TokenizeError":
            a = s.exc.args
            if len(a) < 2 or ast.unparse(a[1]) != "stream.get_position()":
                bad(s, "TokenizeError whose mark is not stream.get_position()")
            return "Raise (TokenizeError (s_idx stream))"
        if isinstance(s, ast.Return):
            return ctx["ret"](s)
        if isinstance(s, ast.Break):
            if ctx.get("brk") is None:
                bad(s, "break outside a loop")
            return ctx["brk"]()
        if isinstance(s, ast.Continue):
            if ctx.get("cont") is None:
                bad(s, "continue outside a loop")
            return ctx["cont"]()
        if isinstance(s, ast.If):
            return self.if_stmt(s, rest, k, ctx)
        if isinstance(s, ast.While):
            return self.while_stmt(s, rest, k, ctx)
        if isinstance(s, ast.For):
            return self.for_stmt(s, rest, k, ctx)
        bad(s, "statement")

    def if_stmt(self, s, rest, k, ctx):
        # `if x is None: A else: B` on an optional int / bool: a match that unwraps x in B
        tst = s.test
        optvar = None
        if (isinstance(tst, ast.Compare) and len(tst.ops) == 1 and isinstance(tst.ops[0], ast.Is)
                and isinstance(tst.left, ast.Name) and self.env.get(tst.left.id) in ("oN", "obool")
                and isinstance(tst.comparators[0], ast.Constant) and tst.comparators[0].value is None):
            optvar = tst.left.id
        if optvar is not None:
            if self.has_ctl(s.body) or self.has_ctl(s.orelse) or optvar in self.assigned(list(s.body) + list(s.orelse)):
                bad(s, "`is None` test with control flow / reassignment")
            oty = self.env[optvar]
            env0 = dict(self.env)
            mods = self.assigned(list(s.body) + list(s.orelse))
            mods = [m for m in mods if m == "stream"] + [m for m in mods if m != "stream"]
            jctx = dict(ctx, brk=None, cont=None)
            ta = self.stmts(list(s.body), lambda: "@@JOIN@@", jctx)
            ea = dict(self.env)
            self.env = dict(env0)
            self.env[optvar] = {"oN": "N", "obool": "bool"}[oty]
            tb = self.stmts(list(s.orelse), lambda: "@@JOIN@@", jctx)
            eb = dict(self.env)
            live = [n for n in mods if n in ea and n in eb and ea[n] == eb[n] and ea[n] != "erased" and n != optvar]
            self.env = dict(env0)
            for n in live:
                self.env[n] = ea[n]
            for n in mods:
                if ea.get(n) == "erased" or eb.get(n) == "erased":
                    self.env[n] = "erased"
            st, pat = self.state_tuple(live)
            ta = ta.replace("@@JOIN@@", f"Ok {st}")
            tb = tb.replace("@@JOIN@@", f"Ok {st}")
            return "\n".join([f"do __j <- (match {optvar} with None => (", ta, f") | Some {optvar} => (", tb, ") end);",
                              f"let {pat} := __j in", self.stmts(rest, k, ctx)])
        pre, c = self.test(s.test)
        if self.has_ctl(s.body) or self.has_ctl(s.orelse):
            env0 = dict(self.env)
            a = self.stmts(list(s.body) + rest, k, ctx)
            env_a = self.env
            self.env = dict(env0)
            b = self.stmts(list(s.orelse) + rest, k, ctx)
            for n, t in env_a.items():
                self.env.setdefault(n, t)
            return "\n".join(pre + [f"if {c} then (", a, ") else (", b, ")"])
        # join form: the branches only update variables (or raise)
        mods = [n for n in self.assigned(list(s.body) + list(s.orelse))]
        mods = [m for m in mods if m == "stream"] + [m for m in mods if m != "stream"]
        known = [n for n in mods if n in self.env or n in LOCAL_TYPES]
        env0 = dict(self.env)

        def branch(body):
            self.env = dict(env0)
            # a variable first assigned in a branch must be assigned in both to survive; checked after
            txt = self.stmts(list(body), lambda: "@@JOIN@@", dict(ctx, brk=None, cont=None))
            return txt, dict(self.env)
        ta, ea = branch(s.body)
        tb, eb = branch(s.orelse)
        live = [n for n in known if n in ea and n in eb and ea[n] == eb[n] and ea[n] != "erased"]
        for n in mods:
            if (n in ea) != (n in eb) and n not in env0:
                # assigned in one branch only and unknown before: a branch-local variable
                pass
        self.env = dict(env0)
        for n in live:
            self.env[n] = ea[n]
        for n in mods:
            if ea.get(n) == "erased" or eb.get(n) == "erased":
                self.env[n] = "erased"
        st, pat = self.state_tuple(live)
        ta = ta.replace("@@JOIN@@", f"Ok {st}")
        tb = tb.replace("@@JOIN@@", f"Ok {st}")
        if not live:
            return "\n".join(pre + [f"do _ <- (if {c} then (", ta, ") else (", tb, "));", self.stmts(rest, k, ctx)])
        return "\n".join(pre + [f"do __j <- (if {c} then (", ta, ") else (", tb, "));", f"let {pat} := __j in", self.stmts(rest, k, ctx)])

    def free_names(self, nodes):
        out = []
        for n in nodes:
            for x in ast.walk(n):
                if isinstance(x, ast.Name) and x.id not in out:
                    out.append(x.id)
        return out

    def while_stmt(self, s, rest, k, ctx):
        if s.orelse:
            bad(s, "while-else")
        self.nloop += 1
        lname = f"{self.coqname}_w{self.nloop}"
        mods = [n for n in self.assigned(s.body) if n in self.env and self.env[n] != "erased"]
        mods = [m for m in mods if m == "stream"] + [m for m in mods if m != "stream"]
        used = [n for n in self.free_names([s.test] + list(s.body)) if n in self.env and self.env[n] != "erased"]
        params = [n for n in ["stream"] + [u for u in used if u != "stream"] if n in used or n in mods or n == "stream"]
        params = [p for p in dict.fromkeys(params)]
        for m in mods:
            if m not in params:
                params.append(m)
        state, spat = self.state_tuple(mods)
        returns = self.has_return(s.body)
        env0 = dict(self.env)
        rec = f"{lname} __fuel {' '.join(params)}"
        exit_ = f"Ok (Next {state})" if returns else f"Ok {state}"
        lctx = dict(ctx)
        lctx["brk"] = lambda: exit_
        lctx["cont"] = lambda: rec
        if returns:
            outer_ret = ctx["ret"]
            lctx["ret"] = lambda r: self.ret_term(r, wrap="Done")
        is_true = isinstance(s.test, ast.Constant) and s.test.value is True
        if is_true:
            body = self.stmts(list(s.body), lambda: rec, lctx)
        else:
            pre, c = self.test(s.test)
            inner = self.stmts(list(s.body), lambda: rec, lctx)
            body = "\n".join(pre + [f"if {c} then (", inner, f") else {exit_}"])
        # variables first assigned inside the loop do not survive it
        for n in list(self.env):
            if n not in env0:
                del self.env[n]
        rty = self.ret_type()
        sty = " * ".join(COQ_TYPE[env0[m]] for m in mods) if mods else "unit"
        lty = f"res (ctl ({sty}) ({rty}))" if returns else f"res ({sty})"
        ptxt = " ".join(f"({p} : {COQ_TYPE[env0[p]]})" for p in params)
        self.loops.append(f"Fixpoint {lname} (__fuel0 : nat) {ptxt} : {lty} :=\n"
                          f"match __fuel0 with O => Raise OutOfFuel | S __fuel =>\n{body}\nend.\n")
        call = f"{lname} (fuel_of stream) {' '.join(params)}"

        def own_break(body):
            for st in body:
                if isinstance(st, ast.Break):
                    return True
                if isinstance(st, ast.If) and (own_break(st.body) or own_break(st.orelse)):
                    return True
            return False
        if is_true and not own_break(s.body):
            if rest:
                bad(s, "statements after a `while True` that has no break")
            if not returns:
                bad(s, "`while True` without break or return")
            return f"do __l <- {call};\nmatch __l with Done __r => Ok __r | Next _ => Raise AssertionError (* unreachable: no break *) end"
        after = self.stmts(rest, k, ctx)
        if returns:
            return f"do __l <- {call};\nmatch __l with Done __r => Ok __r | Next {spat.lstrip(chr(39)) if spat.startswith(chr(39)) else spat} =>\n{after}\nend"
        return f"do __l <- {call};\nlet {spat} := __l in\n{after}"

    def for_stmt(self, s, rest, k, ctx):
        if s.orelse or not isinstance(s.target, ast.Name):
            bad(s, "for shape")
        it = s.iter
        if not (isinstance(it, ast.Call) and isinstance(it.func, ast.Name) and it.func.id == "range" and len(it.args) == 1):
            bad(s, "for over something else than range(n)")
        pre, n = self.nat_expr(it.args[0])
        var = s.target.id
        if self.assigned(s.body):
            bad(s, "for body assigns variables")
        self.nloop += 1
        lname = f"{self.coqname}_f{self.nloop}"
        env0 = dict(self.env)
        self.env[var] = "nat"
        used = [u for u in self.free_names(list(s.body)) if u in env0 and env0[u] != "erased" and u != var]
        params = list(dict.fromkeys(["stream"] + used))
        rec = f"{lname} __todo (S {var}) {' '.join(params)}"
        lctx = dict(ctx, brk=None, cont=lambda: rec)
        body = self.stmts(list(s.body), lambda: rec, lctx)
        self.env = env0
        ptxt = " ".join(f"({p} : {COQ_TYPE[env0[p]]})" for p in params)
        self.loops.append(f"Fixpoint {lname} (__todo0 : nat) ({var} : nat) {ptxt} : res unit :=\n"
                          f"match __todo0 with O => Ok tt | S __todo =>\n{body}\nend.\n")
        return "\n".join(pre + [f"do _ <- {lname} {n} 0%nat {' '.join(params)};", self.stmts(rest, k, ctx)])

    def ret_type(self):
        kept = [COQ_TYPE[t] for t in self.rets if t != "erased"]
        return " * ".join(["OptModel.stream"] + kept)

    def ret_term(self, r, wrap=None):
        vals = []
        if r.value is None:
            if [t for t in self.rets if t != "erased"]:
                bad(r, "bare return")
        else:
            elts = list(r.value.elts) if isinstance(r.value, ast.Tuple) else [r.value]
            if len(elts) != len(self.rets):
                bad(r, f"return arity {len(elts)}, expected {len(self.rets)}")
            pre_all = []
            for e, ty in zip(elts, self.rets):
                if ty == "erased":
                    if not (isinstance(e, ast.Name) and self.env.get(e.id) == "erased"):
                        bad(r, "erased return component is not a mark variable")
                    continue
                pre, t, tt = self.expr(e, want=ty)
                pre_all += pre
                vals.append(self.coerce(t, tt, ty, r))
            tup = "(" + ", ".join(["stream"] + vals) + ")" if vals else "stream"
            inner = f"Ok (Done {tup})" if wrap else f"Ok {tup}"
            return "\n".join(pre_all + [inner])
        return "Ok (Done stream)" if wrap else "Ok stream"

    def translate(self):
        body = list(self.node.body)
        ends_with_return = True

        def fall():
            if [t for t in self.rets if t != "erased"]:
                bad(self.node, "function may fall off the end")
            return "Ok stream"
        ctx = {"ret": lambda r: self.ret_term(r), "brk": None, "cont": None}
        term = self.stmts(body, fall, ctx)
        ptxt = " ".join(f"({p} : {COQ_TYPE[t]})" for p, t in self.params if t != "erased")
        out = "".join(self.loops)
        out += f"Definition {self.coqname} {ptxt} : res ({self.ret_type()}) :=\n{term}.\n"
        return out


# ---------------------------------------------------------------- the generator _tokenize

import re

_DO = re.compile(r"^do (.+?) <- (.*);$", re.S)


def wline(line):
    """a `res` bind of the expression walker, lifted into the writer monad of the generator"""
    m = _DO.match(line)
    if m:
        return f"dow {m.group(1)} <- liftw ({m.group(2)});"
    if line.startswith("let "):
        return line
    raise Untranslatable("cannot lift: " + line[:80])


class TokFn(Fn):
    """_tokenize(text, state): `while True:` over the stream, yielding the tokens of the scanners.

    yield _scan_*_scalar(stream, ..., is_key=True)   -> dow _ <- yield (TKey v)
    yield _scan_*_scalar(stream, ..., is_key=False) / _scan_block_scalar(...)
                                                     -> dow _ <- yield (TValue (s_idx stream) v)   (index at the call)
    yield ColonToken(start_mark, end_mark)           -> dow _ <- yield TColon
    break -> liftw (Ok tt);  raise TokenizeError(msg, stream.get_position()) -> liftw (Raise (TokenizeError (s_idx stream)))
    (the token kinds are checked against the return statements of the scanners: KeyToken if is_key else ValueToken,
     both built from start_mark = the position at entry)
    """

    SCALARS = {"_scan_plain_scalar": True, "_scan_flow_scalar": True, "_scan_block_scalar": False}   # has is_key?

    def __init__(self, mod):
        self.mod, self.pyname = mod, "_tokenize"
        self.node = mod.funcs["_tokenize"]
        self.env = {"text": "str", "state": "erased", "start_mark": "erased", "end_mark": "erased"}
        self.tmp, self.loops, self.nloop = 0, [], 0
        if [a.arg for a in self.node.args.args] != ["text", "state"]:
            bad(self.node, "signature of _tokenize")
        for name, has_key in self.SCALARS.items():
            self.check_token_kinds(mod.funcs[name], has_key)

    def check_token_kinds(self, fn, has_key):
        """start_mark is the position at entry; the function returns KeyToken if is_key else ValueToken built from it"""
        seen = False
        for st in fn.body:
            src = ast.unparse(st)
            if isinstance(st, ast.Assign) and len(st.targets) == 1 and isinstance(st.targets[0], ast.Name) \
                    and st.targets[0].id == "start_mark":
                if src != "start_mark = stream.get_position()":
                    bad(st, "start_mark is not the position at entry")
                seen = True
                break
            if "forward(" in src or "_scan" in src or isinstance(st, (ast.While, ast.For, ast.If)):
                bad(st, "the stream may move before start_mark is taken")
        if not seen:
            bad(fn, "no start_mark")
        rets = [n for n in ast.walk(fn) if isinstance(n, ast.Return)]
        if len(rets) != 1 or rets[0] is not fn.body[-1]:
            bad(fn, "token scanner with several returns")
        v = rets[0].value

        def tok(e, cls):
            return (isinstance(e, ast.Call) and isinstance(e.func, ast.Name) and e.func.id == cls and len(e.args) >= 3
                    and ast.unparse(e.args[0]) == "start_mark" and ast.unparse(e.args[1]) == "end_mark")
        if has_key:
            if not (isinstance(v, ast.IfExp) and ast.unparse(v.test) == "is_key" and tok(v.body, "KeyToken")
                    and tok(v.orelse, "ValueToken") and ast.unparse(v.body.args[2]) == ast.unparse(v.orelse.args[2])):
                bad(rets[0], "expected KeyToken(start_mark, end_mark, v, ..) if is_key else ValueToken(start_mark, end_mark, v, ..)")
        elif not tok(v, "ValueToken"):
            bad(rets[0], "expected ValueToken(start_mark, end_mark, v, ..)")

    # ---- statements in the writer monad
    def lifted(self, pre):
        return [wline(x) for x in pre]

    def yield_stmt(self, y):
        """lines, new stream name (None when the stream is unchanged)"""
        c = y.value
        if isinstance(c, ast.Call) and isinstance(c.func, ast.Name) and c.func.id == "ColonToken":
            if [ast.unparse(a) for a in c.args] != ["start_mark", "end_mark"] or c.keywords:
                bad(y, "ColonToken arguments")
            return ["dow _ <- yield TColon;"], None
        if not (isinstance(c, ast.Call) and isinstance(c.func, ast.Name) and c.func.id in self.SCALARS):
            bad(y, "yield of something that is not a scalar scanner call")
        name = c.func.id
        if self.SCALARS[name]:
            kw = {k.arg: k.value for k in c.keywords}
            k = kw.get("is_key")
            if not (isinstance(k, ast.Constant) and k.value in (True, False)):
                bad(y, "is_key is not a literal")
            is_key = k.value
        else:
            is_key = False
        pre, val, ty = self.scanner_call(c)
        if ty != "str" or len(pre) < 2 or not pre[-1].startswith("let '(stream, "):
            bad(y, "scanner result")
        new = self.fresh("s")
        pre[-1] = pre[-1].replace("let '(stream, ", f"let '({new}, ", 1)
        tokc = f"(TKey {val})" if is_key else f"(TValue (s_idx stream) {val})"
        return self.lifted(pre) + [f"dow _ <- yield {tokc};"], new

    def wstmts(self, body, k):
        if not body:
            return k()
        s, rest = body[0], body[1:]
        nxt = lambda: self.wstmts(rest, k)
        if isinstance(s, ast.Expr) and isinstance(s.value, ast.Constant) and isinstance(s.value.value, str):
            return nxt()
        if isinstance(s, ast.Pass):
            return nxt()
        if isinstance(s, ast.Assign) and len(s.targets) == 1 and isinstance(s.targets[0], ast.Name):
            n = s.targets[0].id
            if self.env.get(n) == "erased":
                if ast.unparse(s.value) != "stream.get_position()":
                    bad(s, "mark variable")
                return nxt()
            if n == "ch" and ast.unparse(s.value) == "stream.peek()":
                pre, t, ty = self.expr(s.value)
                self.env["ch"] = "char"
                return "\n".join(self.lifted(pre) + [f"let ch := {t} in", nxt()])
            bad(s, "assignment in _tokenize")
        if isinstance(s, ast.Expr) and isinstance(s.value, ast.Call):
            c = s.value
            if ast.unparse(c) == "stream.forward()":
                return "dow stream <- liftw (forward stream 1%nat);\n" + nxt()
            if isinstance(c.func, ast.Name) and c.func.id in FUNCS and not [r for r in FUNCS[c.func.id][2] if r != "erased"]:
                pre, _, _ = self.scanner_call(c)
                return "\n".join(self.lifted(pre) + [nxt()])
            bad(s, "call statement in _tokenize")
        if isinstance(s, ast.Expr) and isinstance(s.value, ast.Yield):
            lines, new = self.yield_stmt(s.value)
            if new:
                lines.append(f"let stream := {new} in")
            return "\n".join(lines + [nxt()])
        if isinstance(s, ast.If):
            # guard: break / raise
            if len(s.body) == 1 and not s.orelse and isinstance(s.body[0], (ast.Break, ast.Raise)):
                pre, c = self.test(s.test)
                if isinstance(s.body[0], ast.Break):
                    act = "liftw (Ok tt)"
                else:
                    r = s.body[0].exc
                    if not (isinstance(r, ast.Call) and isinstance(r.func, ast.Name) and r.func.id == "TokenizeError"
                            and len(r.args) == 2 and not r.keywords and ast.unparse(r.args[1]) == "stream.get_position()"):
                        bad(s, "raise in _tokenize")
                    act = "liftw (Raise (TokenizeError (s_idx stream)))"
                return "\n".join(self.lifted(pre) + [f"if {c} then {act}", "else", nxt()])
            # a chain whose branches yield one token or pass
            branches, node = [], s
            while True:
                pre, c = self.test(node.test)
                if pre:
                    bad(node, "effectful test in a yield chain")
                branches.append((c, node.body))
                if len(node.orelse) == 1 and isinstance(node.orelse[0], ast.If):
                    node = node.orelse[0]
                    continue
                if not node.orelse:
                    bad(s, "yield chain without else")
                branches.append((None, node.orelse))
                break
            out = []
            for i, (c, b) in enumerate(branches):
                if len(b) != 1:
                    bad(s, "branch of a yield chain")
                if isinstance(b[0], ast.Pass):
                    blk = "liftw (Ok stream)"
                elif isinstance(b[0], ast.Expr) and isinstance(b[0].value, ast.Yield):
                    lines, new = self.yield_stmt(b[0].value)
                    if not new:
                        bad(s, "branch does not scan")
                    blk = "\n".join(lines + [f"liftw (Ok {new})"])
                else:
                    bad(s, "branch of a yield chain")
                out.append(f"(\n{blk}\n)" if c is None else f"if {c} then (\n{blk}\n) else")
            return "dow stream <- (" + " ".join(out) + ");\n" + nxt()
        bad(s, "statement in _tokenize")

    def translate(self):
        body = list(self.node.body)
        if body and isinstance(body[0], ast.Expr) and isinstance(body[0].value, ast.Constant):
            body = body[1:]
        if len(body) != 2 or ast.unparse(body[0]) != "stream = StreamBuffer(text)":
            bad(self.node, "_tokenize is not `stream = StreamBuffer(text); while True: ...`")
        self.env["stream"] = "stream"
        w = body[1]
        if not (isinstance(w, ast.While) and isinstance(w.test, ast.Constant) and w.test.value is True and not w.orelse):
            bad(w, "loop of _tokenize")
        loop = self.wstmts(list(w.body), lambda: "tokenize_src_w1 __fuel stream")
        out = ("Fixpoint tokenize_src_w1 (__fuel0 : nat) (stream : OptModel.stream) : wres unit :=\n"
               "match __fuel0 with O => liftw (Raise OutOfFuel) | S __fuel =>\n" + loop + "\nend.\n")
        out += ("Definition tokenize_src (text : str) : list token * option exn :=\n"
                "let stream := new_stream text in\n"
                "let '(__ts, __r) := tokenize_src_w1 (fuel_of stream) stream in\n"
                "(__ts, match __r with Ok _ => None | Raise __e => Some __e end).\n")
        return out


# ---------------------------------------------------------------- class StreamBuffer, TokenizeError.clone

class SbFn(Fn):
    """methods of StreamBuffer over the representation of coq/Opt/OptSrcLib.v (sb_at, sb_slice, sb_index_incr, sb_set_*)"""

    def __init__(self, mod, cls):
        self.mod, self.pyname, self.cls = mod, "StreamBuffer", cls
        self.env, self.tmp, self.loops, self.nloop = {}, 0, [], 0
        self.methods = {n.name: n for n in cls.body if isinstance(n, ast.FunctionDef)}

    FIELDS = {"_index": "(s_idx self)", "_line": "(s_line self)", "_column": "(s_col self)"}

    def buf_index(self, e):
        """self._index [+ k] -> k"""
        if ast.unparse(e) == "self._index":
            return "0%nat"
        if isinstance(e, ast.BinOp) and isinstance(e.op, ast.Add) and ast.unparse(e.left) == "self._index" \
                and isinstance(e.right, ast.Name) and self.env.get(e.right.id) == "nat":
            return e.right.id
        bad(e, "buffer index")

    def expr(self, e, want=None):
        if isinstance(e, ast.Subscript) and ast.unparse(e.value) == "self._buffer" and not isinstance(e.slice, ast.Slice):
            k = self.buf_index(e.slice)
            t = self.fresh("c")
            return [f"do {t} <- sb_at self {k};"], t, "char"
        if isinstance(e, ast.Attribute) and ast.unparse(e.value) == "self" and e.attr in self.FIELDS:
            return [], self.FIELDS[e.attr], "N"
        return super().expr(e, want)

    def field_updates(self, body):
        """a block that only updates _line / _column -> Gallina term over `self`"""
        lines = []
        for s in body:
            if isinstance(s, ast.AugAssign) and isinstance(s.op, ast.Add) and isinstance(s.value, ast.Constant) \
                    and type(s.value.value) is int and ast.unparse(s.target) in ("self._line", "self._column"):
                f = ast.unparse(s.target)[5:]
                setter = "sb_set_line" if f == "_line" else "sb_set_col"
                lines.append(f"let self := {setter} self ({self.FIELDS[f]} + {s.value.value}) in")
            elif isinstance(s, ast.Assign) and len(s.targets) == 1 and ast.unparse(s.targets[0]) in ("self._line", "self._column") \
                    and isinstance(s.value, ast.Constant) and type(s.value.value) is int:
                f = ast.unparse(s.targets[0])[5:]
                setter = "sb_set_line" if f == "_line" else "sb_set_col"
                lines.append(f"let self := {setter} self {s.value.value} in")
            else:
                bad(s, "statement in a bookkeeping branch")
        return "(" + "\n".join(lines + ["self"]) + ")"

    def forward(self):
        m = self.methods["forward"]
        if [a.arg for a in m.args.args] != ["self", "length"]:
            bad(m, "signature of forward")
        body = [s for s in m.body if not (isinstance(s, ast.Expr) and isinstance(s.value, ast.Constant))]
        if len(body) != 1 or not (isinstance(body[0], ast.While) and ast.unparse(body[0].test) == "length" and not body[0].orelse):
            bad(m, "forward is not `while length:`")
        loop = list(body[0].body)
        if ast.unparse(loop[-1]) != "length -= 1":
            bad(loop[-1], "the loop does not end with `length -= 1`")
        self.env = {"length": "nat"}
        out = []
        for s in loop[:-1]:
            if isinstance(s, ast.Assign) and len(s.targets) == 1 and isinstance(s.targets[0], ast.Name) and s.targets[0].id == "ch":
                pre, tm, ty = self.expr(s.value)
                if ty != "char":
                    bad(s, "ch is not a character")
                self.env["ch"] = "char"
                out += pre + [f"let ch := {tm} in"]
            elif ast.unparse(s) == "self._index += 1":
                out.append("let self := sb_index_incr self in")
            elif isinstance(s, ast.If):
                chain, node = [], s
                while True:
                    pre, c = self.test(node.test)
                    if chain and pre:
                        bad(node, "effectful elif test")
                    out += pre
                    chain.append((c, self.field_updates(node.body)))
                    if len(node.orelse) == 1 and isinstance(node.orelse[0], ast.If):
                        node = node.orelse[0]
                        continue
                    chain.append((None, self.field_updates(node.orelse)))
                    break
                term = " ".join(f"if {c} then {b} else" if c is not None else b for c, b in chain)
                out.append(f"let self := ({term}) in")
            else:
                bad(s, "statement in forward")
        return ("Fixpoint forward_src (self : OptModel.stream) (length : nat) : res OptModel.stream :=\n"
                "match length with O => Ok self | S length =>\n" + "\n".join(out) + "\nforward_src self length\nend.\n")

    def simple_return(self, name, params):
        m = self.methods[name]
        if [a.arg for a in m.args.args] != ["self"] + [p for p, _ in params]:
            bad(m, f"signature of {name}")
        body = [s for s in m.body if not (isinstance(s, ast.Expr) and isinstance(s.value, ast.Constant))]
        if len(body) != 1 or not isinstance(body[0], ast.Return):
            bad(m, f"{name} is not a single return")
        self.env = dict(params)
        return body[0].value

    def translate(self):
        out = []
        # __init__
        init = self.methods["__init__"]
        got = [ast.unparse(s) for s in init.body]
        want = {"self._buffer": None, "self._index": "0", "self._line": None, "self._column": None}
        vals = {}
        for s in init.body:
            if not (isinstance(s, ast.Assign) and len(s.targets) == 1 and ast.unparse(s.targets[0]) in want):
                bad(s, "statement in StreamBuffer.__init__")
            vals[ast.unparse(s.targets[0])] = s.value
        if set(vals) != set(want) or ast.unparse(vals["self._index"]) != "0" or ast.unparse(vals["self._buffer"]) != "stream + _CHARS_END":
            bad(init, "StreamBuffer.__init__")
        for f in ("self._line", "self._column"):
            if not (isinstance(vals[f], ast.Constant) and type(vals[f].value) is int and vals[f].value >= 0):
                bad(init, "initial line / column")
        out.append(f"Definition new_stream_src (stream : str) : OptModel.stream :=\n"
                   f"sb_init (stream ++ {nlist(self.mod.consts['_CHARS_END'])}) {vals['self._line'].value} {vals['self._column'].value}.\n")
        # properties
        for prop, fld in (("index", "_index"), ("line", "_line"), ("column", "_column")):
            v = self.simple_return(prop, [])
            if ast.unparse(v) != "self." + fld:
                bad(v, f"property {prop}")
        # peek
        v = self.simple_return("peek", [("index", "nat")])
        pre, tm, ty = self.expr(v)
        if ty != "char" or len(pre) != 1:
            bad(v, "peek")
        out.append("Definition peek_src (self : OptModel.stream) (index : nat) : res N :=\n" + pre[0] + f"\nOk {tm}.\n")
        # prefix
        v = self.simple_return("prefix", [("length", "nat")])
        if not (isinstance(v, ast.Subscript) and ast.unparse(v.value) == "self._buffer" and isinstance(v.slice, ast.Slice)
                and v.slice.step is None and ast.unparse(v.slice.lower) == "self._index"):
            bad(v, "prefix")
        n = self.buf_index(v.slice.upper)
        out.append(f"Definition prefix_src (self : OptModel.stream) (length : nat) : str :=\nsb_slice self {n}.\n")
        # forward
        out.append(self.forward())
        # get_position
        v = self.simple_return("get_position", [])
        if not (isinstance(v, ast.Call) and ast.unparse(v.func) == "Position" and len(v.args) == 3 and not v.keywords):
            bad(v, "get_position")
        comps = []
        for a in v.args:
            pre, tm, ty = self.expr(a)
            if pre or ty != "N":
                bad(a, "position component")
            comps.append(tm)
        out.append("Definition get_position_src (self : OptModel.stream) : N * N * N :=\n(" + ", ".join(comps) + ").\n")
        return "\n".join(out)


def translate_clone(mod, cls):
    """TokenizeError.clone on the problem mark (index, line, column): dataclasses.replace keeps the fields not named"""
    m = {n.name: n for n in cls.body if isinstance(n, ast.FunctionDef)}["clone"]
    if [a.arg for a in m.args.args] != ["self", "line_offset", "column_offset"]:
        bad(m, "signature of clone")
    body = [s for s in m.body if not (isinstance(s, ast.Expr) and isinstance(s.value, ast.Constant))]
    if len(body) != 1 or not isinstance(body[0], ast.Return):
        bad(m, "clone is not a single return")
    c = body[0].value
    if not (isinstance(c, ast.Call) and ast.unparse(c.func) == "TokenizeError" and len(c.args) == 4 and not c.keywords
            and ast.unparse(c.args[0]) == "self.problem"):
        bad(c, "clone result")
    r = c.args[1]
    if not (isinstance(r, ast.Call) and ast.unparse(r.func) == "replace" and len(r.args) == 1
            and ast.unparse(r.args[0]) == "self.problem_mark"):
        bad(r, "problem mark of the clone")
    fields = {"index": "__i", "line": "__l", "column": "__c"}

    def ex(e):
        if isinstance(e, ast.BinOp) and isinstance(e.op, (ast.Add, ast.Sub)):
            return f"({ex(e.left)} {'+' if isinstance(e.op, ast.Add) else '-'} {ex(e.right)})"
        if isinstance(e, ast.Name) and e.id in ("line_offset", "column_offset"):
            return e.id
        if isinstance(e, ast.Attribute) and ast.unparse(e.value) == "self.problem_mark" and e.attr in fields:
            return fields[e.attr]
        if isinstance(e, ast.Constant) and type(e.value) is int and e.value >= 0:
            return str(e.value)
        bad(e, "expression in clone")
    new = dict(fields)
    for k in r.keywords:
        if k.arg not in fields:
            bad(r, "replace of an unknown field")
        new[k.arg] = ex(k.value)
    return ("Definition clone_src (problem_mark : N * N * N) (line_offset column_offset : N) : N * N * N :=\n"
            "let '(__i, __l, __c) := problem_mark in\n"
            f"({new['index']}, {new['line']}, {new['column']}).\n")


# ---------------------------------------------------------------- _to_tokens, options_to_items

class PairFn:
    """_to_tokens: `for token in _tokenize(text, state)` over the run of the generator (tokens, pending exception),
    yielding (key, value | None) in the generic writer `gw` of coq/Opt/OptSrcLib.v; a KeyToken / ValueToken variable stands
    for its .value (str), `token.start` for the start index carried by TValue; key_token : option str.
    options_to_items: the list built by output.append over the yielded pairs; an exception of the generator propagates."""

    def __init__(self, mod):
        self.mod = mod
        self.n = 0

    def fresh(self):
        self.n += 1
        return f"__k{self.n}"

    def pair(self, e, known, tokval):
        if not (isinstance(e, ast.Tuple) and len(e.elts) == 2 and ast.unparse(e.elts[0]) == "key_token"):
            bad(e, "yielded pair")
        if known is None:
            bad(e, "key_token may be None here")
        v = e.elts[1]
        if isinstance(v, ast.Constant) and v.value is None:
            return f"({known}, None)"
        if ast.unparse(v) == "token" and tokval:
            return f"({known}, Some {tokval})"
        bad(e, "yielded value")

    def block(self, body, known, tokval, tokstart, final):
        """statements of one branch; `final(known_or_None_expr)` gives the key_token returned"""
        if not body:
            return final(known)
        s, rest = body[0], body[1:]
        if isinstance(s, ast.If) and not s.orelse and ast.unparse(s.test) in ("key_token is not None", "key_token is None"):
            if known is not None and known != "?":
                bad(s, "test of a key_token already known")
            k = self.fresh()
            if ast.unparse(s.test) == "key_token is not None":
                inner = self.block(list(s.body), k, tokval, tokstart, lambda kn: "gret tt")
                cont = self.block(rest, "?", tokval, tokstart, final)
                return f"dog _ <- (match key_token with Some {k} => {inner} | None => gret tt end);\n{cont}"
            # `if key_token is None: raise ...` : afterwards the key is known
            if not (len(s.body) == 1 and isinstance(s.body[0], ast.Raise)):
                bad(s, "`if key_token is None:` without raise")
            r = s.body[0].exc
            if not (isinstance(r, ast.Call) and ast.unparse(r.func) == "TokenizeError" and len(r.args) == 2 and not r.keywords
                    and ast.unparse(r.args[1]) == "token.start" and tokstart):
                bad(s, "raise in _to_tokens")
            cont = self.block(rest, k, tokval, tokstart, final)
            return f"match key_token with None => graise (TokenizeError {tokstart}) | Some {k} =>\n{cont}\nend"
        if isinstance(s, ast.Expr) and isinstance(s.value, ast.Yield):
            if known == "?":
                bad(s, "key_token may be None here")
            return f"dog _ <- gyield {self.pair(s.value.value, known, tokval)};\n" + self.block(rest, known, tokval, tokstart, final)
        if isinstance(s, ast.Assign) and ast.unparse(s.targets[0]) == "key_token" and len(s.targets) == 1:
            if isinstance(s.value, ast.Constant) and s.value.value is None:
                return self.block(rest, "None!", tokval, tokstart, final)
            if ast.unparse(s.value) == "token" and tokval:
                return self.block(rest, "Some!" + tokval, tokval, tokstart, final)
            bad(s, "assignment to key_token")
        bad(s, "statement in _to_tokens")

    @staticmethod
    def keyexpr(known):
        if known == "?" or known is None:
            return "key_token"
        if known == "None!":
            return "None"
        if known.startswith("Some!"):
            return f"(Some {known[5:]})"
        return f"(Some {known})"

    def to_tokens(self):
        fn = self.mod.funcs["_to_tokens"]
        if [a.arg for a in fn.args.args] != ["text", "state", "line_offset", "column_offset"]:
            bad(fn, "signature of _to_tokens")
        body = [s for s in fn.body if not (isinstance(s, ast.Expr) and isinstance(s.value, ast.Constant))]
        if not (len(body) == 2 and isinstance(body[0], ast.AnnAssign) and ast.unparse(body[0].target) == "key_token"
                and isinstance(body[0].value, ast.Constant) and body[0].value.value is None and isinstance(body[1], ast.Try)):
            bad(fn, "_to_tokens is not `key_token = None; try: ...`")
        tr = body[1]
        if tr.orelse or tr.finalbody or len(tr.handlers) != 1 or len(tr.body) != 2:
            bad(tr, "try statement of _to_tokens")
        loop, after = tr.body
        if not (isinstance(loop, ast.For) and ast.unparse(loop.target) == "token" and not loop.orelse
                and ast.unparse(loop.iter) == "_tokenize(text, state)"):
            bad(loop, "loop of _to_tokens")
        # the isinstance chain
        cases, node = {}, loop.body[0] if len(loop.body) == 1 else bad(loop, "loop body")
        while True:
            if not (isinstance(node, ast.If) and isinstance(node.test, ast.Call) and ast.unparse(node.test.func) == "isinstance"
                    and len(node.test.args) == 2 and ast.unparse(node.test.args[0]) == "token"
                    and ast.unparse(node.test.args[1]) in ("KeyToken", "ValueToken", "ColonToken")):
                bad(node, "isinstance chain")
            cls = ast.unparse(node.test.args[1])
            if cls in cases:
                bad(node, "class tested twice")
            cases[cls] = list(node.body)
            if len(node.orelse) == 1 and isinstance(node.orelse[0], ast.If):
                node = node.orelse[0]
                continue
            if node.orelse:
                bad(node, "else of the isinstance chain")
            break
        fin = lambda kn: f"gret {self.keyexpr(kn)}"
        arms = []
        for cls, pat, tv, ts in (("KeyToken", "TKey __v", "__v", None), ("ColonToken", "TColon", None, None),
                                 ("ValueToken", "TValue __start __v", "__v", "__start")):
            arms.append(f"| {pat} =>\n" + (self.block(cases[cls], None, tv, ts, fin) if cls in cases else "gret key_token"))
        out = ("Fixpoint to_tokens_src_f1 (__todo : list token) (key_token : option str) : gw (str * option str) (option str) :=\n"
               "match __todo with [] => gret key_token | token :: __rest =>\n"
               "dog key_token <- (match token with\n" + "\n".join(arms) + "\nend);\n"
               "to_tokens_src_f1 __rest key_token\nend.\n")
        # after the loop
        tail = self.block([after], None, None, None, lambda kn: "gret tt")
        out += ("Definition to_tokens_src (text : str) : gw (str * option str) unit :=\n"
                "let '(__toks, __pending) := tokenize_src text in\n"
                "dog key_token <- to_tokens_src_f1 __toks None;\n"
                "match __pending with Some __e => graise __e | None =>   (* the exception the generator _tokenize ends with *)\n"
                + tail + "\nend.\n")
        # the handler: re-raise, cloned when an offset is given
        h = tr.handlers[0]
        if not (ast.unparse(h.type) == "TokenizeError" and h.name == "exc" and len(h.body) == 2
                and isinstance(h.body[0], ast.If) and not h.body[0].orelse and isinstance(h.body[0].test, ast.BoolOp)
                and isinstance(h.body[0].test.op, ast.Or) and [ast.unparse(v) for v in h.body[0].test.values] == ["line_offset", "column_offset"]
                and len(h.body[0].body) == 1 and isinstance(h.body[0].body[0], ast.Raise)
                and ast.unparse(h.body[0].body[0].exc) == "exc.clone(line_offset, column_offset)"
                and isinstance(h.body[1], ast.Raise) and h.body[1].exc is None):
            bad(h, "handler of _to_tokens")
        out += ("Definition reraise_mark_src (problem_mark : N * N * N) (line_offset column_offset : N) : N * N * N :=\n"
                "if (negb (line_offset =? 0)) || (negb (column_offset =? 0)) then clone_src problem_mark line_offset column_offset\n"
                "else problem_mark.\n")
        return out

    def options_to_items(self):
        fn = self.mod.funcs["options_to_items"]
        if [a.arg for a in fn.args.args] != ["text", "line_offset", "column_offset"]:
            bad(fn, "signature of options_to_items")
        body = [ast.unparse(s) for s in fn.body if not (isinstance(s, ast.Expr) and isinstance(s.value, ast.Constant))]
        want = ["output = []", "state = State()",
                "for key_token, value_token in _to_tokens(text, state, line_offset, column_offset):\n"
                "    output.append((key_token.value, value_token.value if value_token is not None else ''))",
                "return (output, state)"]
        if body != want:
            bad(fn, "options_to_items is not the expected append loop")
        loop = [s for s in fn.body if isinstance(s, ast.For)][0]
        app = loop.body[0].value.args[0]
        dflt = app.elts[1].orelse
        return ("Fixpoint options_to_items_src_f1 (__todo : list (str * option str)) (output : list (str * str)) : list (str * str) :=\n"
                "match __todo with [] => output | (key_token, value_token) :: __rest =>\n"
                f"let output := output ++ [(key_token, match value_token with Some __v => __v | None => {nlist(dflt.value)} end)] in\n"
                "options_to_items_src_f1 __rest output\nend.\n"
                "Definition options_to_items_src (text : str) : res (list (str * str)) :=\n"
                "let output := [] in\n"
                "let '(__pairs, __r) := to_tokens_src text in\n"
                "do _ <- __r;     (* an exception of the generator propagates, the output is dropped *)\n"
                "Ok (options_to_items_src_f1 __pairs output).\n")


class Module:
    def __init__(self, source):
        tree = ast.parse(source)
        self.funcs, self.consts, self.defaults, self.classes = {}, {}, {}, {}
        for node in tree.body:
            if isinstance(node, ast.ClassDef):
                self.classes[node.name] = node
            if isinstance(node, ast.FunctionDef):
                if node.name in self.funcs:
                    raise Untranslatable(f"{node.name} defined twice")
                self.funcs[node.name] = node
                ds = node.args.defaults
                names = [a.arg for a in node.args.args]
                self.defaults[node.name] = dict(zip(names[len(names) - len(ds):], ds))
            tgt = val = None
            if isinstance(node, ast.AnnAssign) and isinstance(node.target, ast.Name):
                tgt, val = node.target.id, node.value
            elif isinstance(node, ast.Assign) and len(node.targets) == 1 and isinstance(node.targets[0], ast.Name):
                tgt, val = node.targets[0].id, node.value
            if tgt in STR_CONSTS:
                if not (isinstance(val, ast.Constant) and isinstance(val.value, str)):
                    raise Untranslatable(f"{tgt} is not a string literal")
                self.consts[tgt] = val.value
        for c in STR_CONSTS:
            if c not in self.consts:
                raise Untranslatable(f"constant {c} not found")
        self.done = []


def translate(source, which=None):
    mod = Module(source)
    out = ["(* GENERATED by gen/c07_src.py from myst_parser/parsers/options.py - do not edit. *)",
           "From Coq Require Import List NArith Bool.",
           "From MV Require Import Base.PyStr.",
           "From MV Require Import Base.Res.",
           "From MV Require Import Gen.OptConsts.",
           "From MV Require Import Opt.OptModel.",
           "From MV Require Import Opt.OptSrcLib.",
           "Import ListNotations.",
           "Open Scope N_scope.",
           ""]
    if which is None:
        for c in ("StreamBuffer", "TokenizeError"):
            if c not in mod.classes:
                raise Untranslatable(f"class {c} not found")
        out.append("(* class StreamBuffer *)")
        out.append(SbFn(mod, mod.classes["StreamBuffer"]).translate())
        out.append("(* TokenizeError.clone *)")
        out.append(translate_clone(mod, mod.classes["TokenizeError"]))
    for name in (which or ORDER):
        if name not in mod.funcs:
            raise Untranslatable(f"function {name} not found")
        fn = Fn(mod, name)
        out.append(f"(* {name} *)")
        out.append(fn.translate())
        mod.done.append(name)
    if which is None:
        if "_tokenize" not in mod.funcs:
            raise Untranslatable("function _tokenize not found")
        out.append("(* _tokenize *)")
        out.append(TokFn(mod).translate())
        for f in ("_to_tokens", "options_to_items"):
            if f not in mod.funcs:
                raise Untranslatable(f"function {f} not found")
        pf = PairFn(mod)
        out.append("(* _to_tokens *)")
        out.append(pf.to_tokens())
        out.append("(* options_to_items *)")
        out.append(pf.options_to_items())
        # the same functions once more, over the translated StreamBuffer methods instead of the primitives of OptModel.v
        i = out.index("(* _scan_line_break *)")
        body = "\n".join(out[i:])
        body = re.sub(r"\b(\w+?)_src\b", lambda m: m.group(0) if m.group(1) in ("clone", "new_stream", "peek", "prefix", "forward", "get_position") else m.group(1) + "_full", body)
        body = re.sub(r"\b(\w+?)_src(_[wf]\d+)\b", r"\1_full\2", body)
        body = re.sub(r"\b(peek|prefix|forward|new_stream)\b(?!_)", r"\1_src", body)
        out.append("(* ---- the same functions over the translated class StreamBuffer (peek_src, prefix_src, forward_src,\n"
                   "        new_stream_src): `<fn>_full`; options_to_items_full is the whole translated entry point ---- *)")
        out.append(body)
    return "\n".join(out)


def run(repo, out_path, write_if_changed, which=None):
    src = (repo / SRC).read_text(encoding="utf8")
    text = translate(src, which)
    write_if_changed(out_path, text)
    return {"file": SRC, "out": "coq/Gen/OptSrc.v", "out_sha256": hashlib.sha256(text.encode()).hexdigest()[:16]}


if __name__ == "__main__":
    import sys
    from pathlib import Path
    names = sys.argv[2:] or None
    print(translate((Path(sys.argv[1] if len(sys.argv) > 1 else "/repo") / SRC).read_text(encoding="utf8"), names))
