"""Generators of MyST documents, configurations and file-system faults for the C01 (totality) search.

Everything is driven by one ``random.Random`` so that a case is reproducible from the seed, and every case is a
plain JSON-serialisable dict:

  {"fe": "docutils"|"sphinx", "text": str, "settings": {myst_* : value}, "files": {relpath: spec}, "name": "index.md"}

``files`` specs:  {"t": text} | {"b": [byte, ...]} | {"dir": 1} | {"inv": [[domain, type, name, loc, text], ...]} |
{"rawinv": [byte, ...]}.
"""
from __future__ import annotations

EXTENSIONS = ["amsmath", "attrs_image", "attrs_inline", "attrs_block", "colon_fence", "deflist", "dollarmath",
              "fieldlist", "html_admonition", "html_image", "linkify", "replacements", "smartquotes",
              "strikethrough", "substitution", "tasklist"]

DOCUTILS_DIRECTIVES = [
    "attention", "caution", "code", "danger", "error", "important", "note", "tip", "hint", "warning", "admonition",
    "sidebar", "topic", "line-block", "parsed-literal", "math", "rubric", "epigraph", "highlights", "pull-quote",
    "compound", "container", "table", "csv-table", "list-table", "image", "figure", "contents", "sectnum", "header",
    "footer", "target-notes", "meta", "raw", "include", "class", "role", "default-role", "title", "date",
    "restructuredtext-test-directive", "replace", "unicode", "code-block", "sourcecode",
]
SPHINX_DIRECTIVES = [
    "toctree", "only", "versionadded", "versionchanged", "deprecated", "seealso", "glossary", "productionlist",
    "literalinclude", "highlight", "centered", "hlist", "index", "tabularcolumns", "codeauthor", "sectionauthor",
    "py:function", "py:class", "py:module", "c:function", "option", "program", "envvar", "cmdoption", "figure-md",
    "acks", "default-domain", "object", "describe", "js:function", "cpp:class", "rst:directive", "confval",
]
DOCUTILS_ROLES = ["abbreviation", "ab", "acronym", "ac", "code", "emphasis", "literal", "math", "pep-reference", "pep",
                  "raw", "rfc-reference", "rfc", "strong", "subscript", "sub", "superscript", "sup", "title-reference",
                  "title", "t", "index", "named-reference", "anonymous-reference", "uri-reference",
                  "footnote-reference", "citation-reference", "substitution-reference", "target",
                  "restructuredtext-unimplemented-role"]
SPHINX_ROLES = ["ref", "doc", "term", "numref", "eq", "download", "any", "py:func", "py:class", "c:func", "kbd",
                "menuselection", "guilabel", "file", "samp", "command", "option", "envvar", "keyword", "token",
                "sub-ref", "math", "manpage", "abbr", "dfn", "mailheader", "makevar", "mimetype", "newsgroup",
                "program", "regexp", "pep", "rfc", "cpp:expr", "c:expr", "js:func", "rst:dir", "std:ref", "index"]

WORDS = ["a", "b", "foo", "bar", "x y", "Title", "é", "中", "1", "10", "-1", "*", "_", "`", "\\", "#", "[", "]", "(", ")",
         "{", "}", "<", ">", ":", "|", "$", "^", "~", "=", "+", "-", "!", "&", "'", "\"", "%", "@", "\t", " ", "0x1",
         "a.b", "http://x.org", "www.x.org", "a@b.c", "inv:", "path:", "project:", "#a", "\u00a0", "\u2028", "\x00",
         "\ud7ff", "\U0001F600", "\u0301", "1.", "1)", "- ", "* ", "> ", "---", "===", "```", ":::", "$$", "{{", "}}",
         "[^", "(a)=", "% c", "+++", "\\begin{equation}", "\\end{equation}", "<div>", "</div>", "<!--", "-->", "&amp;",
         "&#x110000;", "&#0;", "<img src=\"a.png\">", "<img src>", "<div class=\"admonition\">", "<p class=\"title\">",
         "| a |", "|---|", ":--:", "[x]", "[ ]", ": d", "{#i .c k=v}", "{.c}", "{#", "![", "](", "\r\n", "\r", "\n", "\n\n"]

OPTION_VALUES = ["x", "", "1", "-1", "a b", "10px", "50%", "left", "centre", "\"q\"", "'s'", "\"\\x41\"", "\"\\u0041\"",
                 "\"\\UFFFFFFFF\"", "\"\\U00110000\"", "\"\\xZZ\"", "\"\\", "'", "[1, 2]", "{a: b}", "*x", "&a b",
                 "!!python/object:os.system x", "!!int x", "|\n  lit", ">\n  fold", "# c", "a # c", "a: b", "- x",
                 "?", "? x", "@", "`", "%", "0x10", "1e999", "999999999999999999999999", "true", "null", "~", ".inf"]

OPTION_KEYS = ["class", "name", "width", "height", "align", "alt", "scale", "figwidth", "number-lines", "force",
               "linenos", "lineno-start", "emphasize-lines", "caption", "header-rows", "widths", "stub-columns",
               "file", "url", "encoding", "delim", "start-line", "end-line", "start-after", "end-before", "literal",
               "code", "heading-offset", "relative-images", "relative-docs", "tab-width", "depth", "local",
               "backlinks", "maxdepth", "numbered", "glob", "hidden", "subtitle", "format", "language", "prefix",
               "suffix", "start", "ltrim", "rtrim", "trim", "nowrap", "label", "bogus", "", "a b", "é"]

YAML_BAD = ["a: *x", "a: !!python/object:os.system x", "a: [", "a: {", "a: 'x", "\ta: b", "a: b: c", "- a\nb: c",
            "a: &x *x", "? [", "!!binary x: y", "a: !!int x", "a: !!float x", "a: !!bool x", "a: !!timestamp x",
            "a: !!set {b}", "a: !!omap [b]", "a: !!pairs [b]", "a: !<tag:x> b", "%YAML 9.9\n---\na: b", "a: |9\n x",
            "a: \"\\xZZ\"", "a: \"\\UFFFFFFFF\"", "a: \x01", "a: \ufffe", "a: 2001-99-99", "a: 1:99:99", "a: !!null x",
            "<<: *x", "<<: 1", "a: !!merge x", "? !!python/tuple [1]\n: 2", "[a]: b", "{a: b}: c", "a: 0o9", "a: 0x",
            "a: !!binary \"@@@\"", "a: 99999-01-01", "a: 2001-02-30", "a: 2001-01-01T99:00:00", "&a [*a]",
            "a: &a {b: *a}"]

FM_GOOD = ["title: T", "author: A", "date: 2020-01-01", "a: 1", "a: [1, 2]", "a: {b: c}", "abstract: '*x*'",
           "dedication: \"[l](u)\"", "a: null", "1: 2", "true: false", "a: 1.5", "authors: [a, b]", "é: ü",
           "orphan: true", "tocdepth: 2", "nocomments:", "a: !!str 1"]

MYST_OVERRIDES = [
    "enable_extensions: [dollarmath, amsmath]", "enable_extensions: dollarmath", "enable_extensions: [bogus]",
    "enable_extensions: 1", "enable_extensions: null", "enable_extensions: {a: b}", "heading_anchors: 3",
    "heading_anchors: 9", "heading_anchors: x", "heading_anchors: null", "heading_anchors: 2.0", "heading_anchors: true",
    "url_schemes: [http]", "url_schemes: {http: null}", "url_schemes: {http: 'https://x/{{path}}'}",
    "url_schemes: {wiki: {url: 'https://w/{{path}}#{{fragment}}', title: '{{path}}', classes: [a]}}",
    "url_schemes: {http: {classes: abc}}", "url_schemes: {http: {url: 1}}", "url_schemes: 1", "url_schemes: {1: a}",
    "url_schemes: [1]", "url_schemes: {http: [1]}", "url_schemes: {http: {classes: [1, 2]}}",
    "url_schemes: {http: {title: 1}}", "url_schemes: {http: {classes: 5}}", "url_schemes: {http: {1: 2}}",
    "substitutions: {a: b}", "substitutions: {a: '{{b}}', b: '{{a}}'}", "substitutions: {a: '{{a}}'}",
    "substitutions: {a: 1, b: [1], c: null, d: {e: f}}", "substitutions: 1", "substitutions: {1: 2}",
    "substitutions: {a: '```{note}\\nx\\n```'}", "substitutions: {a: '# H'}", "substitutions: {a: '{{ 1/0 }}'}",
    "substitutions: {a: \"{{ '{{a}}' }}\"}", "substitutions: {a: '{% raw %}'}", "substitutions: {a: '{{ b.c.d }}'}",
    "html_meta: {a: b}", "html_meta: {'a b=c': d}", "html_meta: {a: 1}", "html_meta: {'': x}", "html_meta: {a: ''}",
    "html_meta: {'a b': c}", "html_meta: {'a =b': c}", "html_meta: 1", "html_meta: [a]", "html_meta: {'a=': 'x'}",
    "title_to_header: true", "title_to_header: 1", "footnote_sort: false", "footnote_transition: false",
    "all_links_external: true", "links_external_new_tab: true", "commonmark_only: true", "gfm_only: 3",
    "disable_syntax: [emphasis]", "disable_syntax: [bogus]", "disable_syntax: emphasis", "disable_syntax: [1]",
    "disable_syntax: [table, link, image, heading, fence, list, blockquote, hr, html_block, reference, code]",
    "disable_syntax: [text]", "disable_syntax: [block]",
    "disable_syntax: [normalize]", "disable_syntax: [text_join]", "disable_syntax: [balance_pairs]",
    "disable_syntax: [fragments_join]", "disable_syntax: [front_matter]", "disable_syntax: [footnote_tail]",
    "disable_syntax: [escape, entity, backticks, autolink, html_inline, newline, strikethrough]",
    "fence_as_directive: [note, mermaid]", "fence_as_directive: note", "fence_as_directive: [1]", "fence_as_directive: 1",
    "number_code_blocks: [python]", "number_code_blocks: python", "words_per_minute: 100", "words_per_minute: -1",
    "words_per_minute: x", "words_per_minute: 1.5", "words_per_minute: null", "words_per_minute: true",
    "sub_delimiters: ['[', ']']", "sub_delimiters: ab", "sub_delimiters: [a]", "sub_delimiters: ['|', '|']",
    "sub_delimiters: ['\\\\', '\\\\']", "sub_delimiters: ['`', '`']", "sub_delimiters: ['*', '*']",
    "sub_delimiters: ['$', '$']", "sub_delimiters: ['(', ')']", "sub_delimiters: ['\\n', '\\n']",
    "sub_delimiters: [' ', ' ']", "sub_delimiters: ['.', '+']", "sub_delimiters: ['\\U0001F600', 'x']",
    "dmath_allow_labels: false", "dmath_allow_space: false", "dmath_allow_digits: false", "dmath_double_inline: true",
    "enable_checkboxes: true", "linkify_fuzzy_links: false", "highlight_code_blocks: false",
    "heading_slug_func: os.getcwd", "heading_slug_func: bogus.mod.f", "heading_slug_func: 1", "suppress_warnings: [myst]",
    "inventories: {k: [u, p]}", "ref_domains: [py]", "ref_domains: py", "update_mathjax: false", "mathjax_classes: x",
    "bogus: 1", "1: 2", "null: null",
]


def pick(rng, xs):
    return xs[rng.randrange(len(xs))]


def word(rng):
    return pick(rng, WORDS)


def words(rng, lo=1, hi=4):
    return " ".join(word(rng) for _ in range(rng.randint(lo, hi)))


def plain(rng, lo=1, hi=3):
    return " ".join(pick(rng, ["alpha", "beta", "Gamma", "x", "1", "é"]) for _ in range(rng.randint(lo, hi)))


# --------------------------------------------------------------------------------------------- inline

def gen_inline(rng, depth=0, sphinx=False):
    r = rng.random()
    if depth > 2 or r < 0.25:
        return plain(rng) if rng.random() < 0.7 else words(rng)
    k = rng.randrange(26)
    inner = lambda: gen_inline(rng, depth + 1, sphinx)  # noqa: E731
    if k == 0:
        return f"*{inner()}*"
    if k == 1:
        return f"**{inner()}**"
    if k == 2:
        return f"`{words(rng)}`"
    if k == 3:
        return f"[{inner()}]({gen_dest(rng)})"
    if k == 4:
        return f"![{inner()}]({gen_dest(rng)}){gen_attrs(rng) if rng.random() < 0.5 else ''}"
    if k == 5:
        roles = DOCUTILS_ROLES + (SPHINX_ROLES if sphinx else []) + ["bogus", "", "a:b", "é"]
        return "{%s}`%s`" % (pick(rng, roles), pick(rng, [plain(rng), words(rng), "text <target>", "!x", "~a.b", "1",
                                                            "x", "", " ", "a <b", "<", "a <>", "8", "99999999999", "-1",
                                                            "abc (def)", "text\nnewline", "a.md", "/a", "#x"]))
    if k == 6:
        return f"${words(rng)}$"
    if k == 7:
        return f"[^{pick(rng, ['a', 'b', '1', '2', 'x y', 'é', '', '*'])}]"
    if k == 8:
        return "{{ %s }}" % pick(rng, ["a", "b", "c", "d", "a + b", "a.b", "a|upper", "env.docname", "1/0", "x y", "",
                                       "a[", "'{{a}}'", "a|bogus", "range(3)|list", "namespace()", "a()", "e",
                                       "env.config.project", "\"%s\" % a", "lipsum()", "cycler('a').next()",
                                       "'x' * 3", "wordcount-words", "[a, b]|join"])
    if k == 9:
        return f"<{pick(rng, ['http://x.org', 'mailto:a@b.c', 'inv:#x', 'inv:k:py:func#f*', 'path:a.txt', 'project:index.md', 'project:#a', 'a', 'ftp://x', 'inv:', 'inv:#', 'inv::::#*', 'x:y'])}>"
    if k == 10:
        return pick(rng, ["<span>", "</span>", "<b>x</b>", "<img src=\"a.png\">", "<img src>", "<br/>", "<!-- c -->",
                          "<?x?>", "<![CDATA[x]]>", "<a href='x'>", "<img src=\"a\" alt=\"a #b\" width=\"x\">", "<x-y z>",
                          "<img src='a.png' height='1' align=bogus class='a b' name='n'>", "<img src=a.png alt>",
                          "<img src=\"a\nb\">", "<img src=\"a\" alt=\": x\">", "<img src=\"&amp;\" alt='\"'>"])
    if k == 11:
        return f"~~{inner()}~~"
    if k == 12:
        return f"[{inner()}]{gen_attrs(rng)}"
    if k == 13:
        return f"`{plain(rng)}`{gen_attrs(rng)}"
    if k == 14:
        return f"[{inner()}][{pick(rng, ['r', 'R', 'x', ''])}]"
    if k == 15:
        return pick(rng, ["\\\n", "  \n", "\\*", "&amp;", "&#35;", "&#x110000;", "&bogus;", "--", "---", "...", "(c)", "(tm)",
                          "+-", "'q'", "\"q\"", "www.x.org", "http://x.org/a_b", "a@b.co"])
    if k == 16:
        return f"[{inner()}](#{pick(rng, ['a', 'title', 'x', 'é', '', 'a b', 't-1'])})"
    if k == 17:
        return f"$${words(rng)}$$"
    if k == 18:
        return f"[{inner()}](<{gen_dest(rng)}> \"{plain(rng)}\")"
    if k == 19:
        return f"<{pick(rng, ['inv', 'path', 'project', 'http', 'wiki', 'x'])}:{words(rng, 1, 2)}>"
    if k == 20:
        return f"[{inner()}](inv:{pick(rng, ['', 'k', '*', 'k:py', 'k:*:func', 'z', 'k:py:func:extra', 'm'])}#{pick(rng, ['f', 'f*', '*', 'zz', '', 'mod.f', 'a b'])})"
    if k == 21:
        return "{%s}`%s`" % (pick(rng, ["ref", "doc", "eq", "numref", "term", "download", "any", "sub-ref", "math", "code"]),
                              pick(rng, ["a", "index", "other", "/index", "x <a>", "missing", "Fig %s <a>", "wordcount-words", "today"]))
    if k == 22:
        return f"^[{inner()}]"
    if k == 23:
        return "".join(word(rng) for _ in range(rng.randint(1, 6)))
    if k == 24:
        return f"_{inner()}_ __{inner()}__"
    return f"{inner()} {inner()}"


def gen_dest(rng):
    return pick(rng, ["http://x.org", "https://x.org/a?b=c#d", "a.md", "./a.md#t", "other.md", "../x.md", "index.md",
                      "sub/a.md", "a.txt", "a.png", "#a", "#", "", "mailto:x", "inv:#f", "inv:k:py:func#f", "inv:k#*",
                      "path:a.txt", "project:a.md", "project:#a", "project:", "path:", "wiki:Page#frag", "x:y", "ftp://h/p",
                      "/abs.md", "//x", "a b", "<a b>", "a%20b.md", "é.md", "a\\b", "?q", "a.md#", "a.md#a#b", "%", "%zz",
                      "http://[::1", "inv://[#x", "inv://[::1#f", "wiki://[x", "http://x.org:99999/", "javascript:x", "data:,x", "file:///etc/passwd",
                      "x" * 300 + ".md", "a/" * 200 + "b.md", "\x7f", "a.md\\#x", "&amp;", "a|b", "a\"b", "..", ".", "/"])


def gen_attrs(rng):
    parts = []
    for _ in range(rng.randint(0, 4)):
        parts.append(pick(rng, ["#i", "#" + plain(rng, 1, 1), ".c", ".a.b", "k=v", "k=\"v w\"", "width=10px", "w=50%",
                                "h=2em", "height=x", "width=-1", "a=bogus", "align=left", "l=python", "lexer=bogus",
                                "title=\"t\"", "id=x", "class=y", "%c%", "k='", "k=", "=v", "k=\"\\\"\"", "é=ü", "w=1e9",
                                "target=_blank", "rel=x", "reftitle=t", "start=3", "start=x", "style=lower-alpha",
                                "lineno-start=2", "lineno-start=x", "emphasize-lines=1,2", "emphasize-lines=x",
                                "emphasize-lines=9-1", "emphasize-lines=99", "attribution=\"-- *me* {sub}`x`\""]))
    s = "{" + " ".join(parts) + "}"
    if rng.random() < 0.1:
        s = s[:-1]
    return s


# --------------------------------------------------------------------------------------------- blocks

def indent(text, prefix):
    return "\n".join((prefix + ln if ln else prefix.rstrip()) for ln in text.split("\n"))


_SPEC_CACHE = {}


def spec_keys(name):
    """option names of the registered directive (docutils / Sphinx registries), [] when unknown."""
    if name not in _SPEC_CACHE:
        keys = []
        try:
            from docutils.parsers.rst import directives
            from docutils.parsers.rst.languages import en
            from docutils.utils import new_document
            cls, _ = directives.directive(name, en, new_document("<gen>"))
            keys = sorted((cls.option_spec or {}).keys()) if cls is not None else []
        except Exception:
            keys = []
        _SPEC_CACHE[name] = keys
    return _SPEC_CACHE[name]


def gen_options_colon(rng, name):
    lines = []
    own = spec_keys(name)
    for _ in range(rng.randint(0, 3)):
        key = pick(rng, own) if own and rng.random() < 0.6 else pick(rng, OPTION_KEYS)
        lines.append(f":{key}: {pick(rng, OPTION_VALUES)}")
    if rng.random() < 0.08:
        lines.append(pick(rng, [":", "::", ": x", ":a", ":a:b", " :class: x", ":class:x", ":class", ":\tclass: x"]))
    return "\n".join(lines)


def gen_options_yaml(rng, name=""):
    body = []
    own = spec_keys(name) if name else []
    for _ in range(rng.randint(0, 3)):
        key = pick(rng, own) if own and rng.random() < 0.6 else pick(rng, OPTION_KEYS)
        body.append(f"{key}: {pick(rng, OPTION_VALUES)}")
    if rng.random() < 0.2:
        body.append(pick(rng, YAML_BAD))
    closer = pick(rng, ["---", "---", "----", "---x", "", "--- "])
    return "---\n" + "\n".join(body) + ("\n" + closer if closer else "")


def gen_directive(rng, depth, sphinx, files):
    names = DOCUTILS_DIRECTIVES + (SPHINX_DIRECTIVES if sphinx else [])
    r = rng.random()
    if r < 0.12:
        name = pick(rng, ["bogus", "", "a b", "é", "note}", "{note", "py:bogus", "eval-rst "])
    elif r < 0.3:
        name = "include"
    elif r < 0.36:
        name = "eval-rst"
    elif r < 0.5:
        name = pick(rng, ["note", "admonition", "figure", "image", "code-block", "table", "list-table", "csv-table",
                          "math", "toctree" if sphinx else "contents", "figure-md" if sphinx else "topic", "role", "raw",
                          "class", "meta", "replace", "unicode", "date", "title", "sectnum", "target-notes",
                          "default-role", "container", "parsed-literal", "line-block", "sidebar", "header", "footer"])
    else:
        name = pick(rng, names)
    fence = pick(rng, ["```", "```", "````", "~~~", ":::", "::::"])
    if name == "include":
        arg = gen_include_target(rng, files)
    elif name in ("image", "figure"):
        arg = pick(rng, ["a.png", "", "http://x/a.png", "a b.png", "missing.png", "<x>", "a.png b.png"])
    elif name in ("code-block", "code", "sourcecode", "highlight"):
        arg = pick(rng, ["python", "", "bogus", "c++", "python x", "none", "text", "{}"])
    elif name in ("role",):
        arg = pick(rng, ["x", "x(emphasis)", "x(bogus)", "", "x(", "x(raw)", "x(code)", "a b"])
    elif name in ("unicode",):
        arg = pick(rng, ["0x41", "U+110000", "x", "&#x41;", "0xFFFFFFFFF", "u+41 .. c", "", "-1", "1e9"])
    elif name in ("date",):
        arg = pick(rng, ["%Y", "%", "%Q", "", "\udcff"])
    elif name in ("raw",):
        arg = pick(rng, ["html", "latex", "", "html latex", "bogus"])
    elif name in ("sectnum", "contents", "header", "footer", "target-notes", "default-role", "title", "meta", "class"):
        arg = pick(rng, ["", "x", "x y", "emphasis", "bogus"])
    else:
        arg = pick(rng, ["", "", plain(rng), words(rng), "x", "1", "<a>", "a.md", "index", "* *"])
    parts = [f"{fence}{{{name}}} {arg}".rstrip() if rng.random() < 0.95 else f"{fence}{{{name}}}{arg}"]
    o = rng.random()
    if o < 0.45:
        opt = gen_options_colon(rng, name)
        if opt:
            parts.append(opt)
            if rng.random() < 0.7:
                parts.append("")
    elif o < 0.6:
        parts.append(gen_options_yaml(rng, name))
    if name == "eval-rst":
        parts.append(gen_rst(rng, files))
    elif name in ("csv-table",):
        parts.append(pick(rng, ["a,b\n1,2", "a,\"b\n1", "\"", "a;b", "", "a,b\n1", "\x00"]))
    elif name in ("list-table",):
        parts.append(pick(rng, ["* - a\n  - b\n* - c\n  - d", "* - a\n* - b\n  - c", "- a", "x", "", "* x", "* - a\n  - b\n* - c"]))
    elif name in ("table",):
        parts.append(pick(rng, ["| a | b |\n|---|---|\n| 1 | 2 |", "x", "", "| a |\n|--|\n\n| b |\n|--|"]))
    elif name in ("toctree",):
        parts.append(pick(rng, ["other", "index", "missing", "Title <other>", "http://x", "self", "*", "", "/other", "a b <c d>", "<>"]))
    elif name in ("figure-md",):
        parts.append(pick(rng, ["![a](a.png)\n\ncaption", "<img src=\"a.png\">\n\ncap *x*", "x", "", "![a](a.png)", "a\n\nb\n\nc",
                                "![a](a.png){#i}\n\n# h", "<img src>\n\nx"]))
    elif name in ("glossary",):
        parts.append(pick(rng, ["t\n  d", "t", "", "a : b\n    d\n\nc\n    e", "  x"]))
    elif name in ("math",):
        parts.append(pick(rng, ["a = b", "", "\\begin{x}", "a\n\nb"]))
    elif name in ("meta",):
        parts.append(pick(rng, [":a: b", "x", ":a b=c: d", "", ":a:"]))
    elif name in ("role",):
        parts.append(pick(rng, ["", ":class: x", ":format: html", ":language: python", "x", ":bogus: 1"]))
    elif name in ("only",):
        parts[0] = f"{fence}{{only}} {pick(rng, ['html', 'not html', 'a and', '(', '', 'a b', 'html or latex', '1'])}"
        parts.append(gen_blocks(rng, depth + 1, sphinx, files, n=(1, 2)))
    elif name in ("productionlist",):
        parts.append(pick(rng, ["a: b", "x", "", "a: `b` c\n : d", ":"]))
    elif name in ("hlist", "compound", "container", "sidebar", "topic", "epigraph", "note", "admonition", "warning",
                  "tip", "seealso", "versionadded", "deprecated", "figure", "class", "header", "footer", "line-block",
                  "parsed-literal", "rubric", "centered", "py:function", "py:class", "option", "describe", "object",
                  "c:function", "confval", "rst:directive", "js:function", "cpp:class"):
        if rng.random() < 0.8 and depth < 3:
            parts.append(gen_blocks(rng, depth + 1, sphinx, files, n=(1, 2)))
    else:
        if rng.random() < 0.6:
            parts.append(gen_blocks(rng, depth + 1, sphinx, files, n=(0, 2)) if depth < 3 else plain(rng))
    closer = fence if rng.random() < 0.95 else pick(rng, ["", "``", fence + "`"])
    if closer:
        parts.append(closer)
    return "\n".join(parts)


def gen_include_target(rng, files):
    """Choose (and register in ``files``) the target of an include: good, missing, directory, undecodable, self, cycle."""
    k = rng.randrange(13)
    if k == 0:
        files.setdefault("inc_good.md", {"t": "included *text*\n\n## Inc heading\n\n[l](other.md) ![i](a.png)\n"})
        return "inc_good.md"
    if k == 1:
        return "missing.md"
    if k == 2:
        files.setdefault("adir", {"dir": 1})
        return "adir"
    if k == 3:
        files.setdefault("undecodable.md", {"b": [0xff, 0xfe, 0x00, 0xd8, 0x41, 0x0a, 0xc3]})
        return "undecodable.md"
    if k == 4:
        return "__SELF__"
    if k == 5:
        files.setdefault("cyc_a.md", {"t": "A\n\n```{include} cyc_b.md\n```\n"})
        files.setdefault("cyc_b.md", {"t": "B\n\n```{include} cyc_a.md\n```\n"})
        return "cyc_a.md"
    if k == 6:
        files.setdefault("inc_fm.md", {"t": "---\na: *x\nmyst:\n  enable_extensions: [dollarmath]\n---\n# T\n\n$x$ {{a}}\n"})
        return "inc_fm.md"
    if k == 7:
        files.setdefault("inc_rst.rst", {"t": "Title\n=====\n\n.. note:: x\n\n`a`_\n"})
        return "inc_rst.rst"
    if k == 8:
        return pick(rng, ["", " ", "<isonum.txt>", "<bogus.txt>", "/etc/hostname", "../" * 30 + "x", "a\x00b", "x" * 300,
                          "a/" * 150 + "b", "~", ".", "..", "inc good.md", "é.md", "http://x.org/a.md", "\udcff"])
    if k == 9:
        files.setdefault("sub/inc_sub.md", {"t": "![i](img.png) [l](doc.md) [m](doc.md#x)\n\n```{include} ../inc_good.md\n```\n"})
        files.setdefault("inc_good.md", {"t": "included *text*\n"})
        return "sub/inc_sub.md"
    if k == 10:
        files.setdefault("empty.md", {"t": ""})
        return "empty.md"
    if k == 11:
        files.setdefault("inc_bad.md", {"t": "# H\n\n```{bogus}\n```\n\n> ---\n\n{bogus}`x` [^q] <img src>\n\n```{include} missing2.md\n```\n"})
        return "inc_bad.md"
    files.setdefault("inc_marks.md", {"t": "before\nSTART\nmiddle *x*\nEND\nafter\n"})
    return "inc_marks.md"


def gen_rst(rng, files):
    k = rng.randrange(10)
    if k == 0:
        tgt = gen_include_target(rng, files)
        opts = "".join(f"\n   :{pick(rng, ['heading-offset', 'start-line', 'literal', 'code', 'relative-images', 'relative-docs', 'encoding', 'parser', 'bogus'])}: {pick(rng, ['1', '', 'x', 'python', 'utf8', 'bogus', 'rst', 'myst_parser.docutils_'])}"
                       for _ in range(rng.randint(0, 2)))
        return f".. include:: {tgt}{opts}\n"
    return pick(rng, ["*x*", ".. note:: x", "Title\n=====\n\ntext", "`a`_\n\n.. _a: http://x", ":bogus:`x`", ".. bogus::",
                      "", "x\n=", ".. figure:: a.png\n\n   cap", "|s|\n\n.. |s| replace:: x", ".. role:: r(emphasis)\n\n:r:`x`",
                      ".. default-role:: math\n\n`x`", "[1]_\n\n.. [1] f", ".. math::\n\n   a", ".. raw:: html\n\n   <b>",
                      ".. include:: missing.rst", ".. contents::", "..\n  c", "a\n\n  b\n\n c", ".. class:: x\n\np",
                      ".. _t:\n\np", "+--+\n|a |\n+--+", "=== ===\na   b\n=== ===", ".. sectnum::", "----", "x\n\n----",
                      ".. meta::\n   :a: b", ".. unicode:: U+110000", ".. date:: %Q", ".. toctree::\n\n   other",
                      ".. code:: python\n   :number-lines: x\n\n   a", ".. csv-table::\n   :file: missing.csv",
                      ".. csv-table::\n   :url: http://127.0.0.1:1/x", ".. raw:: html\n   :file: missing.html",
                      ".. image:: a.png\n   :width: x", ".. replace:: x", ".. title::", ".. header:: h"])


def gen_html_block(rng):
    return pick(rng, [
        "<div>\n*x*\n</div>", "<div class=\"admonition\">\n<p class=\"title\">T</p>\n<p>body *x*</p>\n</div>",
        "<div class=\"admonition note\" name=\"n\">\nbody\n</div>", "<div class=\"admonition\">\n</div>", "<div class=\"admonition\">",
        "<img src=\"a.png\" alt=\"alt\" width=\"10px\" class=\"c d\">", "<img src>", "<img>", "<img src=\"\">", "<img src=\"a\" height=\"x\">",
        "<img src=\"a.png\" alt=\"a #b\">", "<img src=\"a\" alt=\"&quot;q&quot;\">", "<img src=\"a\" alt=\"| x\">",
        "<img src=\"a\" align=\"bogus\" name=\"a b\">", "<img src='a b.png'>", "<img src=\"a\"><img src=\"b\">",
        "<img src=\"a\nb\">", "<img src=\"a\" alt=\"\\UFFFFFFFF\">", "<img src=\"a\" alt='\"\\UFFFFFFFF\"'>",
        "<img src=\"a\" class=\"[1\">", "<img src=\"a\" width=\"'\">", "<img src=\"a\" alt=\"*x\">", "<img src=\"a\" alt=\"&a b\">",
        "<img src=\"a\" alt=\"!!python/object:os.system x\">", "<img src=\"a\" alt=\"{\">", "<img src=\"a\" alt=\"- x\">",
        "<img src=\"a\" alt=\"? x\">", "<img src=\"a\" alt=\"`\">", "<img src=\"a\" alt=\"@x\">", "<img src=\"a\" alt=\"%x\">",
        "<img src=\"a\" alt=\">\">", "<img src=\"a\" alt=\"|\">", "<img src=\"a\" alt=\"'\">", "<img src=\"a\" alt=\"x: y\">",
        "<div class=\"admonition\" name=\"*x\">\nb\n</div>", "<div class=\"admonition\" class=\"x\" name=\"[\">\nb\n</div>",
        "<div class=\"admonition\"><p class=\"admonition-title\"><b>T</b> &amp; x</p><div><img src=\"a\"></div><!-- c --><?pi?></div>",
        "<div class=\"admonition\"><div class=\"title\"></div></div>", "<div class=\"admonition\"><p class=\"title\">a\nb</p>x</div>",
        "<div class=\"admonition\"><p class=\"title\">```</p>```{bogus}\n```</div>", "<div class=\"admonition\"><p>:class: x</p></div>",
        "<div class=\"admonition\">\n<p>---\na: *x\n---</p></div>", "<div class=\"admonition\">---\na: *x\n---</div>",
        "<div class=\"admonition\">:name: \"\\UFFFFFFFF\"</div>", "<DIV CLASS=\"admonition\">x</DIV>",
        "<!-- comment -->", "<!-- unclosed", "<?php x ?>", "<![CDATA[ x ]]>", "<!DOCTYPE html>", "<![if x]>", "<![", "<!", "<!x", "<?",
        "<script>\nx < y\n</script>", "<style>a{}</style>", "<textarea>", "</div>", "<div", "<div a=>", "<div a='>", "<a b=\"c>",
        "<table><tr><td>x</td></tr></table>", "<p>unclosed", "<br>", "<hr/>", "<x:y z:w=\"1\">", "<div class>", "<div class=admonition>",
        "<img src=\"a.png\" \x00>", "<div class=\"admonition\">&#x110000; &#0; &bogus; &#xD800;</div>", "<img src=\"&#x110000;\">",
        "<iframe src=x></iframe>", "<title>x</title>", "<xmp>", "<plaintext>", "<div class=\"admonition\"></p></div></div>",
    ])


def gen_table(rng):
    cols = rng.randint(1, 3)
    hdr = "| " + " | ".join(gen_inline(rng, 2) .replace("\n", " ") for _ in range(cols)) + " |"
    sep = "|" + "|".join(pick(rng, ["---", ":--", "--:", ":-:", "-"]) for _ in range(cols + rng.choice([0, 0, 0, 1, -1]) or 1)) + "|"
    rows = ["| " + " | ".join(plain(rng, 1, 1) for _ in range(max(0, cols + rng.choice([0, 0, 1, -1])))) + " |" for _ in range(rng.randint(0, 3))]
    return "\n".join([hdr, sep] + rows)


def gen_block(rng, depth, sphinx, files):
    if depth > 4:
        return plain(rng)
    k = rng.randrange(34)
    sub = lambda n=(1, 2): gen_blocks(rng, depth + 1, sphinx, files, n=n)  # noqa: E731
    if k < 4:
        return gen_inline(rng, 0, sphinx) + ("\n" + gen_inline(rng, 0, sphinx) if rng.random() < 0.3 else "")
    if k == 4:
        h = "#" * rng.randint(1, 7) + " " + gen_inline(rng, 1, sphinx).replace("\n", " ")
        return h + (" " + gen_attrs(rng) if rng.random() < 0.2 else "")
    if k == 5:
        return gen_inline(rng, 2).replace("\n", " ") + "\n" + pick(rng, ["===", "---", "=", "-"])
    if k == 6:
        mark = pick(rng, ["- ", "* ", "+ ", "1. ", "1) ", "0. ", "999999999. ", "9999999999. ", "- [ ] ", "- [x] ", "2. "])
        return "\n".join(mark + indent(sub((1, 1)), " " * len(mark)).lstrip() for _ in range(rng.randint(1, 3)))
    if k == 7:
        return indent(sub(), "> ")
    if k == 8 and rng.random() < 0.75:
        return gen_inline(rng, 0, sphinx)
    if k == 8:
        return pick(rng, ["> ---", "> ***", "- ---", "> > ---", "1. ---\n", "> x\n>\n> ---", "---", "***", "___", "> # h\n> ---",
                          "- > ---", ":::{note}\n---\n:::", "```{note}\n\n---\n```", "[^a]: ---\n\n[^a]", "a\n: ---", ":f: ---",
                          "# h\n\n---", "---\n\n# h", "x\n\n---\n\n---", "<div class=\"admonition\">\n\n---\n\n</div>"])
    if k == 9:
        info = pick(rng, ["", "python", "python x", "{", "{}", "bogus", "c++", "{code}", "none", "note", "mermaid", "pycon", "\\", "é"])
        attrs = " " + gen_attrs(rng) if rng.random() < 0.15 else ""
        body = pick(rng, ["x = 1", "", "\n\nx", "a\n```", "\t", "print('é')", ">>> 1\n1"])
        fence = pick(rng, ["```", "~~~", "````"])
        return f"{fence}{info}{attrs}\n{body}\n{fence if rng.random() < 0.9 else ''}"
    if k in (10, 11, 12):
        return gen_directive(rng, depth, sphinx, files)
    if k == 13:
        return gen_html_block(rng)
    if k == 14:
        return gen_table(rng)
    if k == 15:
        lab = pick(rng, ["a", "b", "1", "2", "x y", "é", "*"])
        return f"[^{lab}]: " + indent(sub((1, 2)), "    ").lstrip()
    if k == 16:
        return f"({pick(rng, ['a', 'Title', 'x y', 'é', '', 'a)=(b', '*'])})="
    if k == 17:
        return pick(rng, ["% comment", "%", "+++", "+++ {\"a\": 1}", "+++ x", "% \n% x"])
    if k == 18:
        return "{{ %s }}" % pick(rng, ["a", "b", "c", "d", "x", "a + b", "'# H'", "env", "1/0", "'```{note}\\nx\\n```'"])
    if k == 19:
        return pick(rng, ["$$\na\n$$", "$$ a $$ (lab)", "$$\na\n$$ (é x)", "$$", "$$ a $$ (lab)\n\n$$ b $$ (lab)", "$$a$$ ()",
                          "\\begin{equation}\na\n\\end{equation}", "\\begin{align*}\na\n\\end{align*}", "\\begin{bogus}\n\\end{bogus}",
                          "\\begin{equation}", "\\begin{gather}\n\\label{x}\\end{gather}", "\\begin{equation}a\\end{equation}\n\\begin{equation}b\\end{equation}"])
    if k == 20:
        return gen_attrs(rng) + "\n" + sub((1, 1))
    if k == 21:
        fence = pick(rng, [":::", "::::", ":::::"])
        name = pick(rng, ["", "name", "{note}", "{bogus}", "{figure-md} x", "a b", "{note} T", "{admonition} T\n:class: x"])
        return f"{fence}{name}\n{sub()}\n{fence if rng.random() < 0.9 else ''}"
    if k == 22:
        return plain(rng, 1, 1) + "\n: " + indent(sub((1, 1)), "  ").lstrip() + ("\n: second" if rng.random() < 0.3 else "")
    if k == 23:
        return f":{plain(rng, 1, 1)}: " + indent(sub((1, 1)), "  ").lstrip()
    if k == 24:
        return f"[{pick(rng, ['r', 'R', 'x'])}]: {gen_dest(rng) or 'u'} \"{plain(rng)}\""
    if k == 25:
        return "    " + words(rng)
    if k == 26:
        return "".join(word(rng) for _ in range(rng.randint(1, 12)))
    if k == 27:
        # deep nesting
        n = rng.randint(5, 60)
        kind = rng.randrange(5)
        if kind == 0:
            return "> " * n + "x"
        if kind == 1:
            return "\n".join("  " * i + "- x" for i in range(n))
        if kind == 2:
            return "*" * n + "x" + "*" * n
        if kind == 3:
            return "[" * n + "x" + "](u)" * n
        t = "x"
        for i in range(min(n, 12)):
            f = "`" * (3 + i)
            t = f"{f}{{note}}\n{t}\n{f}"
        return t
    if k == 28:
        return pick(rng, [": d", "term\n:", ":name:", "::", ":a: b\n:c: d\n\n:e:", ":", ":: x", ":a:\n  b\n\n  c"])
    if k == 29:
        return f"![{plain(rng)}]({gen_dest(rng)}){gen_attrs(rng)}"
    if k == 30:
        return f"```{{code-block}} {pick(rng, ['python', '', 'bogus'])}\n:{pick(rng, ['lineno-start', 'emphasize-lines', 'linenos', 'caption', 'name', 'dedent', 'force', 'class'])}: {pick(rng, ['1', 'x', '1,2', '9', '', '-1', 'a b'])}\n\nx = 1\ny\n```"
    if k == 31:
        return gen_inline(rng, 0, sphinx) + " " + gen_inline(rng, 0, sphinx)
    if k == 32:
        return pick(rng, ["```{include} __SELF__\n:literal:\n```", "```{include} __SELF__\n:code: python\n:number-lines: x\n```",
                          "```{include} __SELF__\n:start-after: nothere\n```", "```{include} __SELF__\n:end-before: x\n:start-line: 99\n```",
                          "```{include} __SELF__\n:start-line: -1\n:end-line: x\n```", "```{include} __SELF__\n:literal:\n:number-lines: 3\n:name: n\n:class: c\n```",
                          "```{include} __SELF__\n:encoding: bogus\n:literal:\n```", "```{include} __SELF__\n:encoding: ascii\n:literal:\n```\né",
                          "```{include} __SELF__\n:code:\n:name: a\n```", "```{include} __SELF__\n:heading-offset: -1\n```",
                          "```{include} __SELF__\n:heading-offset: 9\n:end-before: \"```{include}\"\n```\n# H",
                          "```{include} __SELF__\n:relative-docs: x\n:relative-images:\n:literal:\n```", "```{literalinclude} __SELF__\n```",
                          "```{include} __SELF__\n:start-after: MARK\n```\n\nMARK\n\ntext after"])
    return sub((2, 3))


def gen_blocks(rng, depth, sphinx, files, n=(1, 5)):
    return "\n\n".join(gen_block(rng, depth, sphinx, files) for _ in range(rng.randint(*n)))


def gen_front_matter(rng):
    r = rng.random()
    lines = []
    if r < 0.35:
        lines += [pick(rng, FM_GOOD) for _ in range(rng.randint(0, 3))]
    elif r < 0.55:
        lines.append(pick(rng, YAML_BAD))
    elif r < 0.6:
        return pick(rng, ["---\n---", "---\n", "---", "---\nx\n---", "---\n- a\n---", "---\n1\n---", "---\nnull\n---", "----\na: b\n----",
                          "---\na: b\n...", "--- \na: b\n---", "---\r\na: b\r\n---", "---\n\n---", "---\n\"a\n---", "---a\nb: c\n---"])
    if rng.random() < 0.6:
        ov = [pick(rng, MYST_OVERRIDES) for _ in range(rng.randint(1, 3))]
        lines.append("myst:\n" + "\n".join("  " + o for o in ov))
    elif rng.random() < 0.15:
        lines.append(pick(rng, ["myst: 1", "myst: [a]", "myst: null", "myst: x", "substitutions: {a: b}", "html_meta: {a: b}",
                                "substitutions: 1", "html_meta: x", "myst:\n  substitutions: {a: '{{b}}', b: '{{c}}', c: '{{a}}'}"]))
    return "---\n" + "\n".join(lines) + "\n---"


def gen_soup(rng, n=None):
    n = n or rng.randint(1, 60)
    return "".join(word(rng) if rng.random() < 0.8 else pick(rng, ["\n", "\n\n", " ", "    "]) for _ in range(n))


def gen_text(rng, sphinx, files):
    r = rng.random()
    if r < 0.2:
        body = gen_soup(rng)
    elif r < 0.27:
        body = gen_blocks(rng, 0, sphinx, files, n=(1, 3)) + "\n\n" + gen_soup(rng, rng.randint(1, 25))
    else:
        body = gen_blocks(rng, 0, sphinx, files)
    if rng.random() < 0.35:
        body = gen_front_matter(rng) + "\n" + ("\n" if rng.random() < 0.7 else "") + body
    if rng.random() < 0.85:
        body += "\n"
    if rng.random() < 0.03:
        body = body.replace("\n", "\r\n")
    return body


# --------------------------------------------------------------------------------------------- configuration

def gen_extensions(rng, have_linkify):
    pool = [e for e in EXTENSIONS if have_linkify or e != "linkify"]
    r = rng.random()
    if r < 0.15:
        return []
    if r < 0.35:
        return list(pool)
    return [e for e in pool if rng.random() < 0.5]


def gen_settings(rng, have_linkify, sphinx):
    s = {"myst_enable_extensions": gen_extensions(rng, have_linkify)}
    if rng.random() < 0.06:
        s["myst_commonmark_only"] = True
    elif have_linkify and rng.random() < 0.06:
        s["myst_gfm_only"] = True
    opts = [
        ("myst_heading_anchors", [0, 1, 2, 6, 7]), ("myst_all_links_external", [True]), ("myst_title_to_header", [True]),
        ("myst_footnote_sort", [False]), ("myst_footnote_transition", [False]), ("myst_links_external_new_tab", [True]),
        ("myst_disable_syntax", [["emphasis"], ["table"], ["link", "image"], ["heading", "lheading"], ["fence", "code"], ["list"],
                                 ["blockquote"], ["hr"], ["html_block", "html_inline"], ["reference"],
                                 ["front_matter"], ["footnote_def", "footnote_ref"], ["myst_role"], ["myst_block_break", "myst_target", "myst_line_comment"],
                                 ["text_join"], ["balance_pairs"], ["block"], ["escape", "entity", "backticks", "newline"]]),
        ("myst_fence_as_directive", [["note"], ["mermaid", "python"], ["include"], ["eval-rst"]]),
        ("myst_number_code_blocks", [["python"], ["bogus", ""]]),
        ("myst_substitutions", [{"a": "A", "b": "{{a}}", "c": "{{d}}", "d": "{{c}}"}, {"a": 1, "b": None, "c": [1], "d": "```{note}\nx\n```"},
                                {"a": "# H", "b": "{{ b }}", "c": "- x\n- y", "d": "{%"}]),
        ("myst_html_meta", [{"a": "b", "c d=e": "f"}, {"": "x", "a": "", "b c": "d"}]),
        ("myst_url_schemes", [{"http": None, "wiki": {"url": "https://w/{{path}}", "title": "{{path}}", "classes": ["c"]}},
                              {"x": "https://y/{{netloc}}/{{bogus}}"}, {}, ["http", "https"]]),
        ("myst_words_per_minute", [1, 200, 1000, 200, 1, 60, 0]),
        ("myst_dmath_allow_labels", [False]), ("myst_dmath_allow_space", [False]), ("myst_dmath_allow_digits", [False]),
        ("myst_dmath_double_inline", [True]), ("myst_enable_checkboxes", [True]),
        ("myst_heading_slug_func", ["myst_parser.config.main._test_slug_func", "os.getcwd", "builtins.int", "builtins.len"]),
    ]
    if not sphinx:
        opts += [("myst_highlight_code_blocks", [False]), ("myst_suppress_warnings", [["myst"], ["myst.header", "myst.xref_missing"], ["ref"]]),
                 ("myst_inventories", ["__INV__"])]
    else:
        opts += [("myst_ref_domains", [["py"], ["std"], []]), ("myst_update_mathjax", [False]), ("myst_sub_delimiters", [["[", "]"], ("|", "|")])]
    for name, vals in opts:
        if rng.random() < 0.1:
            s[name] = pick(rng, vals)
    if not sphinx and rng.random() < 0.25:
        s["myst_inventories"] = "__INV__"
    if not sphinx and rng.random() < 0.05:
        s[pick(rng, ["raw_enabled", "file_insertion_enabled"])] = False
    if not sphinx and rng.random() < 0.03:
        s["line_length_limit"] = pick(rng, [1, 10, 100])
    if not sphinx and rng.random() < 0.03:
        s["language_code"] = pick(rng, ["de", "fr", "bogus", "zh_cn"])
    return s


INV_ENTRIES = [["py", "function", "f", "api.html#$", "-"], ["py", "function", "mod.f", "api.html#mod.f", "F"],
               ["py", "module", "mod", "m.html#$", "-"], ["std", "label", "a b", "i.html#a-b", "A B"], ["c", "function", "f", "c.html#$", "-"]]


def gen_inventory_files(rng, files):
    """Returns the value for myst_inventories; registers inventory files (good/missing/dir/corrupt)."""
    invs = {}
    for key in ["k"] + (["m"] if rng.random() < 0.4 else []):
        k = rng.randrange(9)
        if k < 3:
            files[f"{key}.inv"] = {"inv": INV_ENTRIES}
            invs[key] = [f"https://{key}.e.org/", f"__DIR__/{key}.inv"]
        elif k == 3:
            invs[key] = [f"https://{key}.e.org/", "__DIR__/missing.inv"]
        elif k == 4:
            files["invdir"] = {"dir": 1}
            invs[key] = [f"https://{key}.e.org/", "__DIR__/invdir"]
        elif k == 5:
            raw = pick(rng, [b"", b"garbage", b"# Sphinx inventory version 2\n# Project: p\n# Version: 1\n# zlib\nnot-zlib-data",
                             b"# Sphinx inventory version 2\n# Project: p\n# Version: 1\nplain\n", b"# Sphinx inventory version 1\n# Project: p\n# Version: 1\na b\n",
                             b"# Sphinx inventory version 1\n# Project: p\n# Version: 1\nf function api.html\nm mod m.html\n",
                             b"# Sphinx inventory version 2\n# Project: \xff\n# Version: 1\n# zlib\n", b"# Sphinx inventory version 3\n", b"\xff\xfe",
                             b"# Sphinx inventory version 2\n"])
            files[f"{key}.inv"] = {"rawinv": list(raw)}
            invs[key] = [f"https://{key}.e.org/", f"__DIR__/{key}.inv"]
        elif k == 6:
            # truncated zlib stream / undecodable content
            files[f"{key}.inv"] = {"inv": INV_ENTRIES, "truncate": rng.randint(1, 30)}
            invs[key] = [f"https://{key}.e.org/", f"__DIR__/{key}.inv"]
        elif k == 7:
            files[f"{key}.inv"] = {"inv": [["py", "function", "f\udcff", "a", "-"]] if False else [["py", "function", "f", "a", "\xff"]], "latin1": 1}
            invs[key] = [f"https://{key}.e.org/", f"__DIR__/{key}.inv"]
        else:
            invs[key] = [f"http://127.0.0.1:1/{key}/", None]
    return invs


def gen_case(rng, fe, have_linkify):
    sphinx = fe == "sphinx"
    files = {}
    text = gen_text(rng, sphinx, files)
    settings = gen_settings(rng, have_linkify, sphinx)
    if settings.get("myst_inventories") == "__INV__":
        settings["myst_inventories"] = gen_inventory_files(rng, files)
    case = {"fe": fe, "text": text, "settings": settings, "files": files, "name": "index.md"}
    if sphinx:
        files.setdefault("other.md", {"t": "# Other\n\n(a)=\n## Sec\n\ntext\n"})
        if rng.random() < 0.3:
            case["intersphinx"] = gen_inventory_files(rng, files)
    return case
