"""A small, fail-closed translator from a restricted subset of Python function bodies to Gallina.

Purpose: for short pure functions (a loop over a sequence that updates a few local variables, with
if / continue / early return) the Coq definition is REGENERATED from /repo's source on every run, so the
theorems are re-checked against what the code says now.  The hand-written model stays the thing the
theorems are proved about; a refinement lemma `generated = hand-written` is the proof obligation that a
source edit breaks.

Subset (anything else raises Untranslatable):
  function body := simple* [for NAME in NAME: loop_stmt+] simple* return EXPR
  simple        := NAME = EXPR | NAME += EXPR | if TEST: simple+ [else: simple+] | docstring | annotation-only
  loop_stmt     := simple | if TEST: loop_stmt+ [else: loop_stmt+] | continue | return EXPR
  TEST          := NAME | not TEST | TEST and TEST | TEST or TEST | EXPR == EXPR | EXPR != EXPR
                   | EXPR in (EXPR, ...) | EXPR is None | EXPR is not None | "c" in EXPR
  EXPR          := rendered by the caller-supplied `expr` hook (domain mapping), which must itself raise
                   Untranslatable on anything it does not know.

Semantics of the emitted term: the mutable locals form a tuple threaded through `fold_left`; an early
`return e` inside the loop is carried as `Some e` in the first component (later iterations are no-ops), so the
result is exactly Python's.
"""
from __future__ import annotations

import ast
from typing import Callable


class Untranslatable(Exception):
    pass


def find_function(tree: ast.Module, name: str) -> ast.FunctionDef:
    for node in ast.walk(tree):
        if isinstance(node, ast.FunctionDef) and node.name == name:
            return node
    raise Untranslatable(f"function {name} not found")


class Translator:
    def __init__(self, fn: ast.FunctionDef, expr: Callable[[ast.expr, "Translator"], str], ret_default: str | None = None):
        self.fn = fn
        self.expr_hook = expr
        self.locals: list[str] = []      # mutable locals, in order of first assignment
        self.ret_default = ret_default

    # ---- expressions / tests
    def expr(self, e: ast.expr) -> str:
        return self.expr_hook(e, self)

    def test(self, t: ast.expr) -> str:
        if isinstance(t, ast.Name):
            return t.id
        if isinstance(t, ast.UnaryOp) and isinstance(t.op, ast.Not):
            return f"(negb {self.test(t.operand)})"
        if isinstance(t, ast.BoolOp):
            op = "andb" if isinstance(t.op, ast.And) else "orb"
            out = self.test(t.values[0])
            for v in t.values[1:]:
                out = f"({op} {out} {self.test(v)})"
            return out
        if isinstance(t, ast.Compare) and len(t.ops) == 1:
            return self.expr(t)
        raise Untranslatable(f"test {ast.dump(t)[:120]}")

    # ---- statements
    def state(self) -> str:
        return "(" + ", ".join(["__ret"] + self.locals) + ")" if self.locals else "__ret"

    def pat(self) -> str:
        return "'(" + ", ".join(["__ret"] + self.locals) + ")"

    def stmts(self, body: list[ast.stmt], in_loop: bool, k: str) -> str:
        """Translate a statement list; `k` is the term for 'fell off the end'."""
        if not body:
            return k
        s, rest = body[0], body[1:]
        if isinstance(s, ast.Expr) and isinstance(s.value, ast.Constant) and isinstance(s.value.value, str):
            return self.stmts(rest, in_loop, k)          # docstring
        if isinstance(s, ast.AnnAssign) and s.value is None:
            return self.stmts(rest, in_loop, k)          # bare annotation
        if isinstance(s, ast.Assign) and len(s.targets) == 1 and isinstance(s.targets[0], ast.Name):
            n = s.targets[0].id
            if n not in self.locals:
                if in_loop:
                    raise Untranslatable(f"local {n} first assigned inside the loop")
                self.locals.append(n)
            return f"let {n} := {self.expr(s.value)} in\n{self.stmts(rest, in_loop, k)}"
        if isinstance(s, ast.AugAssign) and isinstance(s.target, ast.Name) and isinstance(s.op, ast.Add):
            n = s.target.id
            if n not in self.locals:
                raise Untranslatable(f"+= on unknown local {n}")
            return f"let {n} := ({n} ++ {self.expr(s.value)}) in\n{self.stmts(rest, in_loop, k)}"
        if isinstance(s, ast.If):
            a = self.stmts(list(s.body) + rest, in_loop, k)
            b = self.stmts(list(s.orelse) + rest, in_loop, k)
            return f"if {self.test(s.test)} then\n({a})\nelse\n({b})"
        if isinstance(s, ast.Continue) and in_loop:
            return k
        if isinstance(s, ast.Return) and s.value is not None:
            if in_loop:
                return "(" + ", ".join([f"Some ({self.expr(s.value)})"] + self.locals) + ")"
            return self.expr(s.value)
        raise Untranslatable(f"statement {ast.dump(s)[:160]}")

    def function(self, coq_name: str, params: list[tuple[str, str]], ret_type: str) -> str:
        body = list(self.fn.body)
        # split: prefix simple statements, one optional for loop, suffix
        idx = next((i for i, s in enumerate(body) if isinstance(s, ast.For)), None)
        args = " ".join(f"({p} : {t})" for p, t in params)
        if idx is None:
            term = self.stmts(body, False, "__no_return")
            if "__no_return" in term:
                raise Untranslatable("function may fall off the end")
            return f"Definition {coq_name} {args} : {ret_type} :=\n{term}.\n"
        pre, loop, post = body[:idx], body[idx], body[idx + 1:]
        if not (isinstance(loop.target, ast.Name) and isinstance(loop.iter, ast.Name)) or loop.orelse:
            raise Untranslatable("for loop shape")
        if any(isinstance(s, ast.For) for s in ast.walk(ast.Module(body=list(loop.body) + post, type_ignores=[])) if s is not loop):
            raise Untranslatable("nested loop")
        # prefix: collects locals; we emit it around the fold
        marker = "@@LOOP@@"
        pre_term = self.stmts(pre, False, marker)
        if pre_term.count(marker) != 1:
            raise Untranslatable("branching before the loop")
        step_body = self.stmts(list(loop.body), True, self.state())
        step = (f"(fun {self.pat()} {loop.target.id} =>\n match __ret with Some _ => {self.state()} | None =>\n{step_body}\n end)")
        post_term = self.stmts(post, False, "__no_return")
        if "__no_return" in post_term:
            raise Untranslatable("function may fall off the end")
        init = "(" + ", ".join([f"@None {ret_type}"] + self.locals) + ")"
        fold = (f"let {self.pat()} := fold_left {step} {loop.iter.id} {init} in\n"
                f"match __ret with Some __r => __r | None =>\n{post_term}\nend")
        return f"Definition {coq_name} {args} : {ret_type} :=\n{pre_term.replace(marker, fold)}.\n"


def const_str(e: ast.expr) -> str | None:
    if isinstance(e, ast.Constant) and isinstance(e.value, str):
        return e.value
    return None


def coq_str(s: str) -> str:
    """Python str literal -> Gallina list N literal."""
    return "[" + "; ".join(str(ord(c)) for c in s) + "]%N" if s else "[]"
