"""Translator for C11: transform priorities and the get_transforms lists -> coq/Gen/Transforms.v.
Fail-closed: any source shape outside the small grammar below raises."""
from __future__ import annotations

import ast
import hashlib

from lib.common import COQ, REPO, write_if_changed

KNOWN = ["UnreferencedFootnotesDetector", "SortFootnotes", "CollectFootnotes", "ResolveAnchorIds"]


class GenError(Exception):
    pass


def _priority_expr(node, foot_prio):
    """Constant | Footnotes.default_priority (+|-) Constant"""
    if isinstance(node, ast.Constant) and isinstance(node.value, int) and not isinstance(node.value, bool):
        return node.value, str(node.value)
    if (isinstance(node, ast.Attribute) and node.attr == "default_priority"
            and isinstance(node.value, ast.Name) and node.value.id == "Footnotes"):
        return foot_prio, "Footnotes.default_priority"
    if isinstance(node, ast.BinOp) and isinstance(node.op, (ast.Add, ast.Sub)):
        l, ls = _priority_expr(node.left, foot_prio)
        r, rs = _priority_expr(node.right, foot_prio)
        return (l + r, f"{ls} + {rs}") if isinstance(node.op, ast.Add) else (l - r, f"{ls} - {rs}")
    raise GenError(f"priority expression not understood: {ast.dump(node)}")


def read_priorities(path, foot_prio):
    tree = ast.parse(path.read_text())
    # Footnotes must be docutils' own transform
    ok_import = False
    for n in tree.body:
        if isinstance(n, ast.ImportFrom) and n.module == "docutils.transforms.references":
            if any(a.name == "Footnotes" and a.asname is None for a in n.names):
                ok_import = True
    if not ok_import:
        raise GenError("transforms.py does not import Footnotes from docutils.transforms.references")
    out = {}
    for n in tree.body:
        if isinstance(n, ast.ClassDef) and n.name in KNOWN:
            if not any(isinstance(b, ast.Name) and b.id == "Transform" for b in n.bases):
                raise GenError(f"{n.name} is not a direct Transform subclass")
            prios = [s for s in n.body if isinstance(s, ast.Assign)
                     and any(isinstance(t, ast.Name) and t.id == "default_priority" for t in s.targets)]
            if len(prios) != 1:
                raise GenError(f"{n.name}: expected exactly one default_priority assignment")
            out[n.name] = _priority_expr(prios[0].value, foot_prio)
            if not any(isinstance(s, ast.FunctionDef) and s.name == "apply" for s in n.body):
                raise GenError(f"{n.name} has no apply()")
    missing = [k for k in KNOWN if k not in out]
    if missing:
        raise GenError(f"transform classes not found: {missing}")
    return out


def read_get_transforms(path):
    """def get_transforms(self): return super().get_transforms() + [Name, ...]"""
    tree = ast.parse(path.read_text())
    found = []
    for cls in [n for n in ast.walk(tree) if isinstance(n, ast.ClassDef)]:
        for fn in cls.body:
            if isinstance(fn, ast.FunctionDef) and fn.name == "get_transforms":
                found.append((cls.name, fn))
    if len(found) != 1:
        raise GenError(f"{path}: expected exactly one get_transforms, found {len(found)}")
    cls, fn = found[0]
    body = [s for s in fn.body if not (isinstance(s, ast.Expr) and isinstance(s.value, ast.Constant))]
    if len(body) != 1 or not isinstance(body[0], ast.Return):
        raise GenError(f"{path}: get_transforms body is not a single return")
    v = body[0].value
    if not (isinstance(v, ast.BinOp) and isinstance(v.op, ast.Add) and isinstance(v.right, ast.List)):
        raise GenError(f"{path}: get_transforms does not return super().get_transforms() + [...]")
    left = v.left
    if not (isinstance(left, ast.Call) and isinstance(left.func, ast.Attribute) and left.func.attr == "get_transforms"
            and isinstance(left.func.value, ast.Call) and isinstance(left.func.value.func, ast.Name)
            and left.func.value.func.id == "super" and not left.args):
        raise GenError(f"{path}: left operand is not super().get_transforms()")
    names = []
    for e in v.right.elts:
        if not isinstance(e, ast.Name) or e.id not in KNOWN:
            raise GenError(f"{path}: unknown transform in list: {ast.dump(e)}")
        names.append(e.id)
    # the names must be the ones imported from mdit_to_docutils.transforms
    imported = set()
    for n in tree.body:
        if isinstance(n, ast.ImportFrom) and n.module == "myst_parser.mdit_to_docutils.transforms":
            imported |= {a.name for a in n.names if a.asname is None}
    for nm in names:
        if nm not in imported:
            raise GenError(f"{path}: {nm} is not imported from myst_parser.mdit_to_docutils.transforms")
    return cls, names


def run(ctx=None):
    import docutils
    from docutils.transforms.references import Footnotes
    foot = Footnotes.default_priority
    if not isinstance(foot, int):
        raise GenError("docutils Footnotes.default_priority is not an int")
    tpath = REPO / "myst_parser/mdit_to_docutils/transforms.py"
    prios = read_priorities(tpath, foot)
    dcls, dlist = read_get_transforms(REPO / "myst_parser/parsers/docutils_.py")
    scls, slist = read_get_transforms(REPO / "myst_parser/parsers/sphinx_.py")
    lines = ["(* GENERATED by gen/c11_transforms.py from myst_parser/mdit_to_docutils/transforms.py,",
             "   parsers/docutils_.py, parsers/sphinx_.py and the installed docutils. Do not edit. *)",
             "From Coq Require Import List ZArith.", "Import ListNotations.", "Open Scope Z_scope.", "",
             "Inductive xform : Type :=",
             "| XFootnotes   (* docutils.transforms.references.Footnotes *)"]
    for k in KNOWN:
        lines.append(f"| X{k}")
    lines[-1] += "."
    lines += ["", f"(* docutils {docutils.__version__}: Footnotes.default_priority *)",
              f"Definition prio_Footnotes : Z := {foot}.", ""]
    for k in KNOWN:
        val, src = prios[k]
        lines += [f"(* default_priority = {src} *)", f"Definition prio_{k} : Z := {val}.", ""]
    lines += ["Definition priority (x : xform) : Z :=", "  match x with", "  | XFootnotes => prio_Footnotes"]
    for k in KNOWN:
        lines.append(f"  | X{k} => prio_{k}")
    lines += ["  end.", ""]
    lines += [f"(* {dcls}.get_transforms (docutils front end): super().get_transforms() + ... *)",
              "Definition docutils_parser_transforms : list xform := [" + "; ".join("X" + n for n in dlist) + "].", "",
              f"(* {scls}.get_transforms (Sphinx front end) *)",
              "Definition sphinx_parser_transforms : list xform := [" + "; ".join("X" + n for n in slist) + "].", ""]
    content = "\n".join(lines)
    write_if_changed(COQ / "Gen" / "Transforms.v", content)
    info = {"Gen/Transforms.v": hashlib.sha256(content.encode()).hexdigest()[:16],
            "docutils": docutils.__version__, "Footnotes.default_priority": foot,
            "priorities": {k: v[0] for k, v in prios.items()}, "docutils_list": dlist, "sphinx_list": slist}
    if ctx is not None:
        ctx.gen_info.update(info)
    return info


if __name__ == "__main__":
    print(run())
