"""Generator of Markdown block sequences X and of wrappers W for C06 (and reused by C20).

Everything is driven by the random.Random instance that is passed in.  A body X is a list of
lines without blank first/last line; blocks are separated by one blank line."""
from __future__ import annotations

EXTENSIONS = ["colon_fence", "substitution", "deflist", "tasklist"]

WORDS = ["alpha", "beta", "gamma", "delta", "x", "lorem", "ipsum", "wörter", "naïve", "a1", "end.",
         "form\x0cfeed", "ls\u2028ps"]      # str.splitlines separators that are not newlines
ADMONITIONS = ["note", "warning", "tip", "important", "hint", "caution", "danger", "error", "attention"]


class Names:
    """unique labels for footnotes / targets / reference definitions inside one body"""

    def __init__(self, prefix=""):
        self.n = 0
        self.prefix = prefix

    def new(self, kind):
        self.n += 1
        return f"{self.prefix}{kind}{self.n}"


def words(rng, lo=1, hi=5):
    return " ".join(rng.choice(WORDS) for _ in range(rng.randint(lo, hi)))


def inline(rng, names, defs, depth=0):
    """one line of inline content; may append definition lines to defs"""
    parts = []
    for _ in range(rng.randint(1, 4)):
        k = rng.randrange(14)
        if k <= 3:
            parts.append(words(rng))
        elif k == 4:
            parts.append(f"*{words(rng, 1, 2)}*")
        elif k == 5:
            parts.append(f"**{words(rng, 1, 2)}**")
        elif k == 6:
            parts.append(f"`{words(rng, 1, 2)}`")
        elif k == 7:
            parts.append(f"[{words(rng, 1, 2)}](https://example.org/{rng.randint(0, 9)})")
        elif k == 8:
            parts.append("<https://auto.example.org>")
        elif k == 9:
            lab = names.new("r")
            defs.append(f"[{lab}]: https://ref.example.org/{lab}")
            parts.append(f"[{words(rng, 1, 2)}][{lab}]")
        elif k == 10:
            lab = names.new("fn")
            defs.append(f"[^{lab}]: {words(rng)}")
            parts.append(f"{words(rng, 1, 1)}[^{lab}]")
        elif k == 11:
            parts.append(f"<b>{words(rng, 1, 1)}</b>")
        elif k == 12:
            parts.append(f"{{abbr}}`{words(rng, 1, 1)} (expl)`")
        else:
            parts.append(f"![{words(rng, 1, 1)}](img{rng.randint(0, 3)}.png)")
    return " ".join(parts)


def block(rng, names, defs, depth, allow):
    """one block as a list of lines"""
    kinds = ["para", "para", "para2", "bullet", "ordered", "quote", "code", "fence", "table", "target",
             "html", "hr", "comment", "deflist", "task", "nestedlist",
             "trail-break", "trail-list", "trail-code", "trail-fence", "trail-tab"]    # significant trailing whitespace
    if "directive" in allow and depth < 2:
        kinds += ["directive", "directive", "colondiv"]
    if "heading" in allow:
        kinds += ["heading"]
    k = rng.choice(kinds)
    if k == "para":
        return [inline(rng, names, defs)]
    if k == "trail-break":      # hard line break written as two trailing spaces
        return [words(rng, 1, 3) + "  ", words(rng, 1, 2) + "   ", words(rng, 1, 2)]
    if k == "trail-list":
        return [f"- {words(rng, 1, 2)}  ", f"  {words(rng, 1, 2)}", f"- {words(rng, 1, 2)}"]
    if k == "trail-code":
        return [f"    code {words(rng, 1, 2)}   ", "    second\t", "    third"]
    if k == "trail-fence":
        return ["```text", f"code {words(rng, 1, 2)}  ", "tab\t", "   ", "end", "```"]
    if k == "trail-tab":
        return [words(rng, 1, 3) + "\t", words(rng, 1, 2)]
    if k == "para2":
        return [inline(rng, names, defs), inline(rng, names, defs) + ("\\" if rng.random() < 0.3 else ""),
                words(rng)]
    if k == "bullet":
        m = rng.choice("-*+")
        return [f"{m} {inline(rng, names, defs)}" for _ in range(rng.randint(1, 3))]
    if k == "ordered":
        s = rng.choice([1, 1, 3])
        return [f"{s + i}. {inline(rng, names, defs)}" for i in range(rng.randint(1, 3))]
    if k == "nestedlist":
        return [f"- {words(rng)}", f"  - {inline(rng, names, defs)}", f"  - {words(rng)}", f"- {words(rng)}"]
    if k == "quote":
        return [f"> {inline(rng, names, defs)}"] + ([f"> {words(rng)}"] if rng.random() < 0.5 else [])
    if k == "code":
        return [f"    {words(rng)}", "    second  line"]
    if k == "fence":
        lang = rng.choice(["", "python", "c", "text"])
        return ["```" + lang, f"code {words(rng)}", "", "  indented", "```"]
    if k == "table":
        return ["| a | b |", "|---|:-:|", f"| {words(rng, 1, 2)} | {inline(rng, names, defs)} |"]
    if k == "target":
        return [f"({names.new('t')})=", inline(rng, names, defs)]
    if k == "html":
        return ["<div class=\"c\">", f"<p>{words(rng)}</p>", "</div>"]
    if k == "hr":
        return ["***"]
    if k == "comment":
        return [f"% {words(rng)}"]
    if k == "deflist":
        return [f"{words(rng, 1, 2)}", f": {inline(rng, names, defs)}"]
    if k == "task":
        return ["- [ ] todo", f"- [x] {words(rng)}"]
    if k == "heading":
        # unique text (duplicate names are C05/C09 matter); levels without jumps: 1 .. current + 1
        cur = getattr(names, "hlevel", 0)
        lvl = rng.randint(1, min(cur + 1, 4))
        names.hlevel = lvl
        return ["#" * lvl + " " + names.new("Head") + " " + words(rng, 1, 3)]
    if k == "colondiv":
        return [":::name", words(rng), ":::"]
    if k == "directive":
        name = rng.choice(ADMONITIONS + ["admonition", "code-block", "table-none"])
        inner = body(rng, names, depth + 1, allow - {"heading"}, nblocks=rng.randint(1, 2))
        if name == "admonition":
            head = "```{admonition} " + words(rng, 1, 2)
        elif name == "code-block":
            return ["```{code-block} python", ":linenos:", "", "x = 1", "```"]
        elif name == "table-none":
            return ["```{unknown-directive-x}", words(rng), "```"]
        else:
            head = "```{" + name + "}"
        fence = "`" * max(3, max_run(inner, "`") + 1)
        return [fence + head[3:]] + inner + [fence]
    raise AssertionError(k)


def max_run(lines, ch):
    """longest run of ch at the start (after blanks) of any line"""
    m = 0
    for l in lines:
        s = l.lstrip(" \t")
        n = len(s) - len(s.lstrip(ch))
        m = max(m, n)
    return m


def body(rng, names=None, depth=0, allow=frozenset({"directive"}), nblocks=None):
    """list of lines of a generated block sequence; definitions used by inline content are
    appended as their own blocks"""
    names = names or Names()
    allow = set(allow)
    defs = []
    out = []
    n = nblocks if nblocks is not None else rng.randint(1, 5)
    for i in range(n):
        b = block(rng, names, defs, depth, allow)
        if out:
            out.append("")
        out += b
        if defs and rng.random() < 0.5:
            out.append("")
            out += interleave(defs)
            defs = []
    if defs:
        out.append("")
        out += interleave(defs)
    # first line must not look like an option block for the no-option layouts
    if out[0].lstrip().startswith(":") or out[0].startswith("---"):
        out = ["lead " + words(rng, 1, 2), ""] + out
    return out


def interleave(defs):
    out = []
    for d in defs:
        if out:
            out.append("")
        out.append(d)
    return out


# ------------------------------------------------------------------ wrappers

def gen_layer(rng, kinds=("b", "t", "c"), titled_ok=True, opts_ok=True):
    titled = titled_ok and rng.random() < 0.15
    name = "admonition" if titled else rng.choice(ADMONITIONS)
    first = ("My *title* " + rng.choice(WORDS)) if titled else ""
    if not titled and rng.random() < 0.08:
        first = "first line " + rng.choice(WORDS)      # body text on the opening line
    r = rng.random()
    if not opts_ok or r < 0.3:
        o = ("N", [], False)
    elif r < 0.45:
        o = ("B", [], False)
    elif r < 0.8:
        o = ("C", rng.sample(["class: tip extra", "name: nm%d" % rng.randint(0, 10 ** 6)], rng.randint(1, 2)),
             rng.random() < 0.7)
    else:
        o = ("D", rng.sample(["class: tip extra", "name: nm%d" % rng.randint(0, 10 ** 6)], rng.randint(1, 2)),
             rng.random() < 0.7)
    return {"t": "A", "titled": titled, "name": name, "first": first, "okind": o[0], "opts": o[1],
            "blank": o[2], "k": rng.choice(kinds), "len": 0}


FCH = {"b": "`", "t": "~", "c": ":"}


def opt_lines(layer):
    k, opts, blank = layer["okind"], layer["opts"], layer["blank"]
    if k == "N":
        return []
    if k == "B":
        return [""]
    if k == "C":
        return [":" + o for o in opts] + ([""] if blank else [])
    return ["---"] + list(opts) + ["---"] + ([""] if blank else [])


def print_layers(layers, X):
    """independent re-implementation of Split.print_lines (compared with the model in corr)"""
    lines = list(X)
    for layer in reversed(layers):
        if layer["t"] == "A":
            fence = FCH[layer["k"]] * layer["len"]
            head = fence + "{" + layer["name"] + "}" + ((" " + layer["first"]) if layer["first"] else "")
            lines = [head] + opt_lines(layer) + lines + [fence]
        elif layer["t"] == "I":
            lines = ["```{include} " + layer["path"], "```"]
        else:
            lines = ["{{" + layer["key"] + "}}"]
    return lines


def fix_lengths(rng, layers, X, minlen=3, maxextra=3):
    """choose fence lengths inside-out so that no inner line closes an outer fence"""
    lines = list(X)
    for layer in reversed(layers):
        ch = FCH[layer["k"]]
        need = max(minlen, max_run(lines, ch) + 1)
        layer["len"] = need + rng.randint(0, maxextra)
        lines = print_layers([layer], lines)
    return layers


def gen_wrapper(rng, X, depth=None, kinds=("b", "t", "c")):
    depth = depth or rng.choice([1, 1, 1, 2, 2, 3, 4])
    layers = [gen_layer(rng, kinds) for _ in range(depth)]
    # layouts without a separating blank line need a body that cannot be read as options;
    # body(): first line never option-like, and an inner wrapper line starts with a fence.
    for i, layer in enumerate(layers):
        inner_first = X[0] if i == depth - 1 else None
        if layer["okind"] in ("N", "C", "D") and not layer["blank"]:
            # the next line is the inner opening fence or X[0]; a colon fence line starts with ':'
            nxt_is_colon = (i < depth - 1 and layers[i + 1]["k"] == "c")
            if nxt_is_colon and layer["k"] == "c" and layer["okind"] == "N":
                pass    # ":::" directly after a colon opening line: render_colon_fence's own case
            elif nxt_is_colon or (inner_first is not None and inner_first.lstrip().startswith(":")):
                if layer["okind"] == "N":
                    layer["okind"] = "B"
                else:
                    layer["blank"] = True
            if layer["okind"] == "D" and not layer["blank"]:
                layer["blank"] = layer["blank"]
        if layer["first"] and not layer["titled"] and (layer["okind"] != "N" or depth > 1):
            layer["first"] = ""        # body text on the opening line: only for a single plain layer
    return fix_lengths(rng, layers, X)


def enc_layer(layer, enc_str, enc_strs):
    if layer["t"] == "A":
        return "|".join(["A", "1" if layer["titled"] else "0", enc_str(layer["name"]), enc_str(layer["first"]),
                         layer["okind"], enc_strs(layer["opts"]), "1" if layer["blank"] else "0",
                         layer["k"], str(layer["len"])])
    if layer["t"] == "I":
        return "I|" + enc_str(layer["path"])
    return "S|" + enc_str(layer["key"])
