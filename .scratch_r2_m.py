import sys, json, random, importlib
sys.path[:0]=['/verif','/repo']
from gen import c02_model as M
from collections import Counter
pid=sys.argv[1]
P=importlib.import_module("props."+pid)
class Ctx:
    tier="quick"; deep=False
    def __init__(s): s.rng=random.Random(0)
    def budget(s,a,b,c): return a//3
cases=[c for l,c in P.corr_cases(Ctx()) if not (l.startswith("dyn") and "agree" in sys.argv)]
print(len(cases))
for cmd in sys.argv[2:]:
    res=M.model_measure(pid,cmd,cases)
    cnt=Counter((r["reply"][:6] if r else None, r["lexer_ok"] if r else None) for r in res)
    print(cmd,cnt)
    bad = {"total": lambda r: r["reply"]=="T 10", "xfchk": lambda r: r["reply"].startswith("X ") and "0" in r["reply"][2:4],
           "agree": lambda r: r["reply"]=="A 0" and r["lexer_ok"]}[cmd]
    n=0
    for c,r in zip(cases,res):
        if r and bad(r):
            print("  BAD",r["reply"],json.dumps(c)[:400]); n+=1
            if n>=8: break
